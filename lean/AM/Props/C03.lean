/-
  C03 — Inhibition is the documented existential rule, independent of the
  order in which source alerts arrived, were refreshed or resolved.

  The theorems of the first part are about the REPAIRED code (fixes/F2.diff:
  fallback scan of the rule's source cache when the single index slot cannot
  inhibit; the GC callback re-indexes the surviving cache entries).  The second
  part is about the pinned tree (`Legacy.*`): the statement holds only under
  `UniqueSourcePerEqualKey`, and three concrete histories (decided by the
  kernel) show it false otherwise (finding F2).
-/
import AM.Lemmas.Inhibit
import AM.Lemmas.InhibitLegacy

namespace AM.Inhibit
open AM AM.AList

/-! ### histories and the global invariant -/

/-- every cache GC of the history happened no later than `now` (time does not run backwards). -/
def GcBefore (now : Int) (h : List Ev) : Prop :=
  ∀ e ∈ h, match e with
    | .gc _ g => g ≤ now
    | .proc _ => True

structure Inv (lat : AList Labels Alert) (now : Int) (st : State) : Prop where
  shape : ∀ rs ∈ st, Shape rs
  indexed : ∀ rs ∈ st, Indexed rs
  tracks : ∀ rs ∈ st, Tracks lat now rs

theorem latOK_put (lat : AList Labels Alert) (a : Alert) (h : LatOK lat) : LatOK (put lat a.labels a) := by
  refine ⟨noDupKeys_put _ _ _ h.nd, ?_⟩
  intro k b hb
  rw [lookup_put] at hb
  by_cases hk : a.labels = k
  · simp [hk] at hb; subst hb; exact hk
  · simp [hk] at hb; exact h.key k b hb

theorem gcAt_mem (i : Nat) (g : Int) (st : State) (rs' : RS) (h : rs' ∈ gcAt i g st) :
    rs' ∈ st ∨ ∃ rs ∈ st, rs' = gcRule g rs := by
  induction st generalizing i with
  | nil => simp [gcAt] at h
  | cons rs rest ih =>
    cases i with
    | zero =>
      simp only [gcAt, List.mem_cons] at h
      rcases h with rfl | h
      · right; exact ⟨rs, by simp, rfl⟩
      · left; simp [h]
    | succ i =>
      simp only [gcAt, List.mem_cons] at h
      rcases h with rfl | h
      · left; simp
      · rcases ih i h with h1 | ⟨r0, h1, h2⟩
        · left; simp [h1]
        · right; exact ⟨r0, by simp [h1], h2⟩

theorem gcAt_rules (i : Nat) (g : Int) (st : State) : (gcAt i g st).map (·.rule) = st.map (·.rule) := by
  induction st generalizing i with
  | nil => simp [gcAt]
  | cons rs rest ih =>
    cases i with
    | zero => simp [gcAt, gcRule_rule]
    | succ i => simp [gcAt, ih]

theorem process_rules (a : Alert) (st : State) : (process st a).map (·.rule) = st.map (·.rule) := by
  unfold process
  simp [List.map_map, Function.comp_def]

theorem step_inv (lat : AList Labels Alert) (now : Int) (st : State) (e : Ev)
    (he : match e with | .gc _ g => g ≤ now | .proc _ => True)
    (h : Inv lat now st) : Inv (latestStep lat e) now (step st e) := by
  cases e with
  | proc a =>
    simp only [latestStep, step, process]
    refine ⟨?_, ?_, ?_⟩ <;> intro rs' hrs' <;> obtain ⟨rs, hrs, rfl⟩ := List.mem_map.mp hrs'
    · exact procRule_shape a rs (h.shape rs hrs)
    · exact procRule_indexed a rs (h.indexed rs hrs)
    · exact procRule_tracks lat now a rs (h.tracks rs hrs)
  | gc i g =>
    simp only [latestStep, step]
    simp only at he
    refine ⟨?_, ?_, ?_⟩ <;> intro rs' hrs' <;> rcases gcAt_mem i g st rs' hrs' with h1 | ⟨rs, hrs, rfl⟩
    · exact h.shape rs' h1
    · exact gcRule_shape g rs (h.shape rs hrs)
    · exact h.indexed rs' h1
    · exact gcRule_indexed g rs (h.shape rs hrs) (h.indexed rs hrs)
    · exact h.tracks rs' h1
    · exact gcRule_tracks lat now g he rs (h.shape rs hrs) (h.tracks rs hrs)

theorem step_rules (st : State) (e : Ev) : (step st e).map (·.rule) = st.map (·.rule) := by
  cases e with
  | proc a => exact process_rules a st
  | gc i g => exact gcAt_rules i g st

theorem latestStep_ok (lat : AList Labels Alert) (e : Ev) (h : LatOK lat) : LatOK (latestStep lat e) := by
  cases e with
  | proc a => exact latOK_put lat a h
  | gc i g => exact h

theorem foldl_inv (h : List Ev) (now : Int) (lat : AList Labels Alert) (st : State)
    (hgc : GcBefore now h) (hi : Inv lat now st) (hl : LatOK lat) :
    Inv (h.foldl latestStep lat) now (h.foldl step st) ∧ LatOK (h.foldl latestStep lat) ∧
      (h.foldl step st).map (·.rule) = st.map (·.rule) := by
  induction h generalizing lat st with
  | nil => exact ⟨hi, hl, rfl⟩
  | cons e h ih =>
    simp only [List.foldl_cons]
    have he := hgc e (by simp)
    have hgc' : GcBefore now h := fun e' he' => hgc e' (by simp [he'])
    have := ih (latestStep lat e) (step st e) hgc' (step_inv lat now st e he hi) (latestStep_ok lat e hl)
    refine ⟨this.1, this.2.1, ?_⟩
    rw [this.2.2, step_rules]

theorem init_inv (rules : List Rule) (now : Int) : Inv [] now (init rules) := by
  refine ⟨?_, ?_, ?_⟩ <;> intro rs hrs <;> obtain ⟨r, _, rfl⟩ := List.mem_map.mp hrs
  · exact ⟨by simp [NoDupKeys], by simp, by intro key l hl; simp at hl⟩
  · intro k a ha; simp at ha
  · exact ⟨by intro k a ha; simp at ha, by intro k a ha; simp at ha⟩

theorem init_rules (rules : List Rule) : (init rules).map (·.rule) = rules := by
  unfold init; simp [List.map_map, Function.comp_def]

/-- the invariant of every reachable inhibitor state. -/
theorem run_inv (rules : List Rule) (h : List Ev) (now : Int) (hgc : GcBefore now h) :
    Inv (latest h) now (run rules h) ∧ LatOK (latest h) ∧ (run rules h).map (·.rule) = rules := by
  have := foldl_inv h now [] (init rules) hgc (init_inv rules now) ⟨by simp [NoDupKeys], by simp⟩
  unfold latest run
  refine ⟨this.1, this.2.1, ?_⟩
  rw [this.2.2, init_rules]

/-! ### per-rule verdict = documented clause -/

theorem eqKey_eq_iff (r : Rule) (a b : Labels) :
    r.eqKey a = r.eqKey b ↔ ∀ l ∈ r.equal, a.get l = b.get l := by
  unfold Rule.eqKey; exact List.map_inj_left

theorem mem_firing {lat : AList Labels Alert} (hl : LatOK lat) (now : Int) (a : Alert) :
    a ∈ firing lat now ↔ lookup lat a.labels = some a ∧ a.resolvedAt now = false := by
  unfold firing
  rw [List.mem_filter, mem_vals_iff hl.nd]
  constructor
  · rintro ⟨⟨k, hk⟩, hr⟩
    have := hl.key k a hk
    subst this
    exact ⟨hk, by simpa using hr⟩
  · rintro ⟨hk, hr⟩
    exact ⟨⟨_, hk⟩, by simp [hr]⟩

/-- the documented clause for one rule and one source. -/
def Clause (r : Rule) (a : Alert) (ls : Labels) : Prop :=
  r.src a.labels = true ∧ (∀ l ∈ r.equal, a.labels.get l = ls.get l) ∧ ¬ (r.src ls = true ∧ r.tgt a.labels = true)

theorem usable_iff (r : Rule) (now : Int) (ls : Labels) (a : Alert) :
    usable r now (r.src ls) a = true ↔ a.resolvedAt now = false ∧ ¬ (r.src ls = true ∧ r.tgt a.labels = true) := by
  unfold usable
  cases a.resolvedAt now <;> cases r.src ls <;> cases r.tgt a.labels <;> simp

theorem hasEqual_iff_clause (lat : AList Labels Alert) (now : Int) (rs : RS) (ls : Labels)
    (hl : LatOK lat) (hs : Shape rs) (hi : Indexed rs) (ht : Tracks lat now rs) :
    (hasEqual rs now ls).isSome = true ↔ ∃ a ∈ firing lat now, Clause rs.rule a ls := by
  constructor
  · intro h
    obtain ⟨l, hl'⟩ := Option.isSome_iff_exists.mp h
    obtain ⟨a, ha, hu, hk⟩ := hasEqual_sound rs now ls l hs hl'
    have hkey := hs.key l a ha
    obtain ⟨hsrc, hlat⟩ := ht.sound l a ha
    rw [usable_iff] at hu
    refine ⟨a, (mem_firing hl now a).mpr ⟨by rw [hkey]; exact hlat, hu.1⟩, ?_, ?_, hu.2⟩
    · rw [hkey]; exact hsrc
    · rw [hkey]; exact (eqKey_eq_iff _ _ _).mp hk
  · rintro ⟨a, hf, hsrc, heq, hex⟩
    obtain ⟨hlat, hr⟩ := (mem_firing hl now a).mp hf
    have hc := ht.complete a.labels a hlat hsrc hr
    exact hasEqual_complete rs now ls hs hi a.labels a hc ((usable_iff _ _ _ _).mpr ⟨hr, hex⟩)
      ((eqKey_eq_iff _ _ _).mpr heq)

theorem inhibited_iff_clause (rules : List Rule) (fir : List Alert) (ls : Labels) :
    inhibited rules fir ls ↔ ∃ r ∈ rules, r.tgt ls = true ∧ ∃ a ∈ fir, Clause r a ls := Iff.rfl

/-! ### the theorems of C03 (repaired code) -/

/-- **mutes_iff_spec.**  After any history of alert versions reaching the
    inhibitor (fire, refresh with other ends, explicit resolve, time-out, re-fire,
    in any order, any number of sources sharing equal-label values) and cache GCs,
    `Mutes` at `now` says exactly what the documented rule says about the
    alerts firing at `now`. -/
theorem mutes_iff_spec (rules : List Rule) (h : List Ev) (now : Int) (ls : Labels)
    (hgc : GcBefore now h) :
    mutes (run rules h) now ls = true ↔ inhibited rules (firing (latest h) now) ls := by
  obtain ⟨hinv, hlat, hrules⟩ := run_inv rules h now hgc
  unfold mutes mutesBy
  rw [List.findSome?_isSome_iff, inhibited_iff_clause]
  constructor
  · rintro ⟨rs, hrs, hsome⟩
    by_cases ht : rs.rule.tgt ls = true
    · simp only [ht, if_true] at hsome
      refine ⟨rs.rule, ?_, ht, ?_⟩
      · rw [← hrules]; exact List.mem_map.mpr ⟨rs, hrs, rfl⟩
      · exact (hasEqual_iff_clause _ now rs ls hlat (hinv.shape rs hrs) (hinv.indexed rs hrs) (hinv.tracks rs hrs)).mp hsome
    · simp [ht] at hsome
  · rintro ⟨r, hr, ht, hex⟩
    rw [← hrules] at hr
    obtain ⟨rs, hrs, rfl⟩ := List.mem_map.mp hr
    refine ⟨rs, hrs, ?_⟩
    simp only [ht, if_true]
    exact (hasEqual_iff_clause _ now rs ls hlat (hinv.shape rs hrs) (hinv.indexed rs hrs) (hinv.tracks rs hrs)).mpr hex

/-- **verdict_order_independent.**  Two histories that leave the same alerts
    firing at `now` give the same verdict, whatever the arrival order, the
    refreshes, the resolves and the GC instants in between were. -/
theorem verdict_order_independent (rules : List Rule) (h₁ h₂ : List Ev) (now : Int) (ls : Labels)
    (hgc₁ : GcBefore now h₁) (hgc₂ : GcBefore now h₂)
    (hsame : ∀ a, a ∈ firing (latest h₁) now ↔ a ∈ firing (latest h₂) now) :
    mutes (run rules h₁) now ls = mutes (run rules h₂) now ls := by
  have h1 := mutes_iff_spec rules h₁ now ls hgc₁
  have h2 := mutes_iff_spec rules h₂ now ls hgc₂
  have : inhibited rules (firing (latest h₁) now) ls ↔ inhibited rules (firing (latest h₂) now) ls := by
    unfold inhibited
    constructor
    · rintro ⟨r, hr, ht, a, ha, hc⟩; exact ⟨r, hr, ht, a, (hsame a).mp ha, hc⟩
    · rintro ⟨r, hr, ht, a, ha, hc⟩; exact ⟨r, hr, ht, a, (hsame a).mpr ha, hc⟩
  cases hm1 : mutes (run rules h₁) now ls <;> cases hm2 : mutes (run rules h₂) now ls <;> simp_all

/-- **status_reports_a_real_inhibitor.**  The fingerprint `Mutes` records as
    `inhibitedBy` belongs to an alert that is firing and satisfies the rule
    for the muted label set; and `Mutes` is true exactly when one is recorded. -/
theorem status_reports_a_real_inhibitor (rules : List Rule) (h : List Ev) (now : Int) (ls by_ : Labels)
    (hgc : GcBefore now h) (hby : mutesBy (run rules h) now ls = some by_) :
    ∃ r ∈ rules, r.tgt ls = true ∧ ∃ a ∈ firing (latest h) now, a.labels = by_ ∧ Clause r a ls := by
  obtain ⟨hinv, hlat, hrules⟩ := run_inv rules h now hgc
  unfold mutesBy at hby
  obtain ⟨rs, hrs, hf⟩ := List.exists_of_findSome?_eq_some hby
  by_cases ht : rs.rule.tgt ls = true
  · simp only [ht, if_true] at hf
    obtain ⟨a, ha, hu, hk⟩ := hasEqual_sound rs now ls by_ (hinv.shape rs hrs) hf
    have hkey := (hinv.shape rs hrs).key by_ a ha
    obtain ⟨hsrc, hl⟩ := (hinv.tracks rs hrs).sound by_ a ha
    rw [usable_iff] at hu
    refine ⟨rs.rule, ?_, ht, a, ?_, hkey, ?_, ?_, hu.2⟩
    · rw [← hrules]; exact List.mem_map.mpr ⟨rs, hrs, rfl⟩
    · exact (mem_firing hlat now a).mpr ⟨by rw [hkey]; exact hl, hu.1⟩
    · rw [hkey]; exact hsrc
    · rw [hkey]; exact (eqKey_eq_iff _ _ _).mp hk
  · simp [ht] at hf

theorem mutes_eq_isSome (st : State) (now : Int) (ls : Labels) :
    mutes st now ls = (mutesBy st now ls).isSome := rfl

/-- the executable form of the rule used by the driver is the declarative one. -/
theorem inhibitedB_iff (rules : List Rule) (fir : List Alert) (ls : Labels) :
    inhibitedB rules fir ls = true ↔ inhibited rules fir ls := by
  unfold inhibitedB inhibited inhibitsB
  simp only [List.any_eq_true, Bool.and_eq_true, List.all_eq_true, beq_iff_eq, Bool.not_eq_true']
  constructor
  · rintro ⟨r, hr, a, ha, ⟨⟨⟨ht, hs⟩, he⟩, hx⟩⟩
    refine ⟨r, hr, ht, a, ha, hs, he, ?_⟩
    rintro ⟨h1, h2⟩; simp [h1, h2] at hx
  · rintro ⟨r, hr, ht, a, ha, hs, he, hx⟩
    refine ⟨r, hr, a, ha, ⟨⟨⟨ht, hs⟩, he⟩, ?_⟩⟩
    cases h1 : r.src ls <;> cases h2 : r.tgt a.labels <;> simp_all

/-! ### the pinned tree: partial theorem and counterexamples (finding F2) -/

/-- The hypothesis the pinned code needs: in the whole history no two distinct
    label sets on the source side of a rule share that rule's equal-label values. -/
def UniqueSourcePerEqualKey (rules : List Rule) (h : List Ev) : Prop :=
  ∀ r ∈ rules, ∀ a b, Ev.proc a ∈ h → Ev.proc b ∈ h → r.src a.labels = true → r.src b.labels = true →
    r.eqKey a.labels = r.eqKey b.labels → a.labels = b.labels

structure LInv (U : Labels → Prop) (lat : AList Labels Alert) (now : Int) (st : State) : Prop where
  shape : ∀ rs ∈ st, Shape rs
  exact : ∀ rs ∈ st, SlotExact rs
  inU : ∀ rs ∈ st, InU U rs
  tracks : ∀ rs ∈ st, Tracks lat now rs

theorem Legacy.gcAt_mem (i : Nat) (g : Int) (st : State) (rs' : RS) (h : rs' ∈ Legacy.gcAt i g st) :
    rs' ∈ st ∨ ∃ rs ∈ st, rs' = Legacy.gcRule g rs := by
  induction st generalizing i with
  | nil => simp [Legacy.gcAt] at h
  | cons rs rest ih =>
    cases i with
    | zero =>
      simp only [Legacy.gcAt, List.mem_cons] at h
      rcases h with rfl | h
      · right; exact ⟨rs, by simp, rfl⟩
      · left; simp [h]
    | succ i =>
      simp only [Legacy.gcAt, List.mem_cons] at h
      rcases h with rfl | h
      · left; simp
      · rcases ih i h with h1 | ⟨r0, h1, h2⟩
        · left; simp [h1]
        · right; exact ⟨r0, by simp [h1], h2⟩

theorem Legacy.gcAt_rules (i : Nat) (g : Int) (st : State) :
    (Legacy.gcAt i g st).map (·.rule) = st.map (·.rule) := by
  induction st generalizing i with
  | nil => simp [Legacy.gcAt]
  | cons rs rest ih =>
    cases i with
    | zero => simp [Legacy.gcAt, Legacy.gcRule_rule]
    | succ i => simp [Legacy.gcAt, ih]

theorem Legacy.step_rules (st : State) (e : Ev) : (Legacy.step st e).map (·.rule) = st.map (·.rule) := by
  cases e with
  | proc a => exact process_rules a st
  | gc i g => exact Legacy.gcAt_rules i g st

theorem Legacy.step_inv (U : Labels → Prop) (lat : AList Labels Alert) (now : Int) (st : State) (e : Ev)
    (hu : ∀ rs ∈ st, UniqU U rs.rule)
    (he : match e with | .gc _ g => g ≤ now | .proc a => U a.labels)
    (h : LInv U lat now st) : LInv U (latestStep lat e) now (Legacy.step st e) := by
  cases e with
  | proc a =>
    simp only [latestStep, Legacy.step, process]
    simp only at he
    refine ⟨?_, ?_, ?_, ?_⟩ <;> intro rs' hrs' <;> obtain ⟨rs, hrs, rfl⟩ := List.mem_map.mp hrs'
    · exact procRule_shape a rs (h.shape rs hrs)
    · exact (procRule_legacy U a rs he (hu rs hrs) (h.shape rs hrs) (h.exact rs hrs) (h.inU rs hrs)).1
    · exact (procRule_legacy U a rs he (hu rs hrs) (h.shape rs hrs) (h.exact rs hrs) (h.inU rs hrs)).2
    · exact procRule_tracks lat now a rs (h.tracks rs hrs)
  | gc i g =>
    simp only [latestStep, Legacy.step]
    simp only at he
    refine ⟨?_, ?_, ?_, ?_⟩ <;> intro rs' hrs' <;> rcases Legacy.gcAt_mem i g st rs' hrs' with h1 | ⟨rs, hrs, rfl⟩
    · exact h.shape rs' h1
    · exact Legacy.gcRule_shape g rs (h.shape rs hrs)
    · exact h.exact rs' h1
    · exact (Legacy.gcRule_legacy U g rs (hu rs hrs) (h.shape rs hrs) (h.exact rs hrs) (h.inU rs hrs)).1
    · exact h.inU rs' h1
    · exact (Legacy.gcRule_legacy U g rs (hu rs hrs) (h.shape rs hrs) (h.exact rs hrs) (h.inU rs hrs)).2
    · exact h.tracks rs' h1
    · exact Legacy.gcRule_tracks lat now g he rs (h.shape rs hrs) (h.tracks rs hrs)

theorem Legacy.foldl_inv (U : Labels → Prop) (h : List Ev) (now : Int) (lat : AList Labels Alert) (st : State)
    (hu : ∀ r ∈ st.map (·.rule), UniqU U r)
    (hev : ∀ e ∈ h, match e with | .gc _ g => g ≤ now | .proc a => U a.labels)
    (hi : LInv U lat now st) (hl : LatOK lat) :
    LInv U (h.foldl latestStep lat) now (h.foldl Legacy.step st) ∧ LatOK (h.foldl latestStep lat) ∧
      (h.foldl Legacy.step st).map (·.rule) = st.map (·.rule) := by
  induction h generalizing lat st with
  | nil => exact ⟨hi, hl, rfl⟩
  | cons e h ih =>
    simp only [List.foldl_cons]
    have he := hev e (by simp)
    have hev' : ∀ e' ∈ h, match e' with | .gc _ g => g ≤ now | .proc a => U a.labels :=
      fun e' he' => hev e' (by simp [he'])
    have hu1 : ∀ rs ∈ st, UniqU U rs.rule := fun rs hrs => hu rs.rule (List.mem_map.mpr ⟨rs, hrs, rfl⟩)
    have hu' : ∀ r ∈ (Legacy.step st e).map (·.rule), UniqU U r := by rw [Legacy.step_rules]; exact hu
    have := ih (latestStep lat e) (Legacy.step st e) hu' hev' (Legacy.step_inv U lat now st e hu1 he hi)
      (latestStep_ok lat e hl)
    refine ⟨this.1, this.2.1, ?_⟩
    rw [this.2.2, Legacy.step_rules]

theorem Legacy.hasEqual_iff_clause (lat : AList Labels Alert) (now : Int) (rs : RS) (ls : Labels)
    (hl : LatOK lat) (hs : Shape rs) (hx : SlotExact rs) (ht : Tracks lat now rs) :
    (Legacy.hasEqual rs now ls).isSome = true ↔ ∃ a ∈ firing lat now, Clause rs.rule a ls := by
  constructor
  · intro h
    obtain ⟨l, hl'⟩ := Option.isSome_iff_exists.mp h
    obtain ⟨a, ha, hu, hk⟩ := Legacy.hasEqual_sound rs now ls l hs hl'
    have hkey := hs.key l a ha
    obtain ⟨hsrc, hlat⟩ := ht.sound l a ha
    rw [usable_iff] at hu
    refine ⟨a, (mem_firing hl now a).mpr ⟨by rw [hkey]; exact hlat, hu.1⟩, ?_, ?_, hu.2⟩
    · rw [hkey]; exact hsrc
    · rw [hkey]; exact (eqKey_eq_iff _ _ _).mp hk
  · rintro ⟨a, hf, hsrc, heq, hex⟩
    obtain ⟨hlat, hr⟩ := (mem_firing hl now a).mp hf
    have hc := ht.complete a.labels a hlat hsrc hr
    exact Legacy.hasEqual_complete rs now ls hx a.labels a hc ((usable_iff _ _ _ _).mpr ⟨hr, hex⟩)
      ((eqKey_eq_iff _ _ _).mpr heq)

/-- **mutes_iff_spec_partial** (pinned tree).  What the single-slot index
    does satisfy: the documented rule, PROVIDED no two source alerts ever share
    the equal-label values of a rule.  The full statement (no such proviso) is
    `mutes_iff_spec` above, proved for the repaired code, and refuted for the
    pinned code by the three counterexamples below. -/
theorem mutes_iff_spec_partial (rules : List Rule) (h : List Ev) (now : Int) (ls : Labels)
    (hgc : GcBefore now h) (huniq : UniqueSourcePerEqualKey rules h) :
    Legacy.mutes (Legacy.run rules h) now ls = true ↔ inhibited rules (firing (latest h) now) ls := by
  let U : Labels → Prop := fun l => ∃ a, Ev.proc a ∈ h ∧ a.labels = l
  have hU : ∀ r ∈ (init rules).map (·.rule), UniqU U r := by
    rw [init_rules]
    intro r hr x y ⟨a, ha, hax⟩ ⟨b, hb, hby⟩ sx sy hk
    subst hax; subst hby
    exact huniq r hr a b ha hb sx sy hk
  have hev : ∀ e ∈ h, match e with | .gc _ g => g ≤ now | .proc a => U a.labels := by
    intro e he
    cases e with
    | proc a => exact ⟨a, he, rfl⟩
    | gc i g => exact hgc _ he
  have hinit : LInv U [] now (init rules) := by
    refine ⟨?_, ?_, ?_, ?_⟩ <;> intro rs hrs <;> obtain ⟨r, _, rfl⟩ := List.mem_map.mp hrs
    · exact ⟨by simp [NoDupKeys], by simp, by intro key l hl; simp at hl⟩
    · intro k a ha; simp at ha
    · exact ⟨by intro k a ha; simp at ha, by intro k a ha; simp at ha⟩
    · exact ⟨by intro k a ha; simp at ha, by intro k a ha; simp at ha⟩
  obtain ⟨hinv, hlat, hrules⟩ := Legacy.foldl_inv U h now [] (init rules) hU hev hinit ⟨by simp [NoDupKeys], by simp⟩
  rw [init_rules] at hrules
  change LInv U (latest h) now (Legacy.run rules h) at hinv
  change LatOK (latest h) at hlat
  change (Legacy.run rules h).map (·.rule) = rules at hrules
  unfold Legacy.mutes Legacy.mutesBy
  rw [List.findSome?_isSome_iff, inhibited_iff_clause]
  constructor
  · rintro ⟨rs, hrs, hsome⟩
    by_cases ht : rs.rule.tgt ls = true
    · simp only [ht, if_true] at hsome
      refine ⟨rs.rule, ?_, ht, ?_⟩
      · rw [← hrules]; exact List.mem_map.mpr ⟨rs, hrs, rfl⟩
      · exact (Legacy.hasEqual_iff_clause _ now rs ls hlat (hinv.shape rs hrs) (hinv.exact rs hrs) (hinv.tracks rs hrs)).mp hsome
    · simp [ht] at hsome
  · rintro ⟨r, hr, ht, hex⟩
    rw [← hrules] at hr
    obtain ⟨rs, hrs, rfl⟩ := List.mem_map.mp hr
    refine ⟨rs, hrs, ?_⟩
    simp only [ht, if_true]
    exact (Legacy.hasEqual_iff_clause _ now rs ls hlat (hinv.shape rs hrs) (hinv.exact rs hrs) (hinv.tracks rs hrs)).mpr hex

/-! #### counterexamples for the pinned code: one rule `s="1"` inhibits `t="1"` when `e` is equal -/
namespace F2

def rule : Rule := { src := fun ls => ls.get "s" == "1", tgt := fun ls => ls.get "t" == "1", equal := ["e"] }

def src (x : String) (ends : Int) (upd : Int := 0) : Alert :=
  { labels := [("e", "1"), ("s", "1"), ("x", x)], startsAt := 0, endsAt := ends, updatedAt := upd, timeout := false }

def both (x : String) (ends : Int) : Alert :=
  { labels := [("e", "1"), ("s", "1"), ("t", "1"), ("x", x)], startsAt := 0, endsAt := ends, updatedAt := 0, timeout := false }

def target : Labels := [("e", "1"), ("t", "1")]

/-- s1 (+600) and s2 (+300) share `e`; s1 is resolved explicitly at 10. -/
def hResolve : List Ev := [.proc (src "1" 600), .proc (src "2" 300), .proc (src "1" 10 10)]
/-- s2 (+2000) is indexed; s1 (+10) shares `e`, resolves, and is collected by the cache GC at 900. -/
def hGC : List Ev := [.proc (src "2" 2000), .proc (src "1" 10), .gc 0 900]
/-- the indexed source matches both sides, its sibling only the source side; the target matches both sides. -/
def hTwoSided : List Ev := [.proc (both "1" 2000), .proc (src "2" 1000)]
def targetBoth : Labels := [("e", "1"), ("s", "1"), ("t", "1"), ("x", "9")]

end F2

open F2 in
/-- F2, first way: the indexed source was resolved explicitly, its sibling still fires. -/
theorem single_slot_resolved_sibling :
    Legacy.mutes (Legacy.run [rule] hResolve) 20 target = false ∧
    inhibitedB [rule] (firing (latest hResolve) 20) target = true ∧
    mutes (run [rule] hResolve) 20 target = true := by decide

open F2 in
/-- F2, second way: the cache GC of a resolved sibling deletes the shared index entry. -/
theorem single_slot_gc_sibling :
    Legacy.mutes (Legacy.run [rule] hGC) 1000 target = false ∧
    inhibitedB [rule] (firing (latest hGC) 1000) target = true ∧
    mutes (run [rule] hGC) 1000 target = true := by decide

open F2 in
/-- F2, third way: the both-sides exclusion rejects the indexed source and never looks at its sibling. -/
theorem single_slot_two_sided :
    Legacy.mutes (Legacy.run [rule] hTwoSided) 20 targetBoth = false ∧
    inhibitedB [rule] (firing (latest hTwoSided) 20) targetBoth = true ∧
    mutes (run [rule] hTwoSided) 20 targetBoth = true := by decide

open F2 in
/-- the full statement is false of the pinned tree. -/
theorem mutes_iff_spec_false_for_pinned_tree :
    ¬ ∀ (rules : List Rule) (h : List Ev) (now : Int) (ls : Labels), GcBefore now h →
      (Legacy.mutes (Legacy.run rules h) now ls = true ↔ inhibited rules (firing (latest h) now) ls) := by
  intro hall
  have h1 := hall [rule] hResolve 20 target (by intro e he; simp [hResolve] at he; rcases he with rfl | rfl | rfl <;> trivial)
  have h2 := single_slot_resolved_sibling
  rw [← inhibitedB_iff] at h1
  rw [h2.1, h2.2.1] at h1
  simp at h1

/-! ### non-vacuity of the hypotheses -/

example : GcBefore 1000 F2.hGC := by
  intro e he; simp [F2.hGC] at he; rcases he with rfl | rfl | rfl <;> simp

example : UniqueSourcePerEqualKey [F2.rule] [.proc (F2.src "1" 600), .gc 0 900] := by
  intro r _ a b ha hb _ _ _
  simp at ha hb
  rw [ha, hb]

end AM.Inhibit
