/-
  C02 — The mute verdict equals a direct evaluation of the stored silences,
  after every history.

  `Silencer.Mutes` is incremental: per alert it caches `(store version, ids)`
  and afterwards only re-examines the cached ids plus what the version index
  lists after the cached version.  The headline theorem is
  `mutes_eq_bruteforce`: over every history of Set / edit / Expire / Merge
  (late, duplicated, out-of-order versions, revivals) / GC / alert GC /
  snapshot reload / Mutes, with time moving forward, the verdict and the
  `silencedBy` list are exactly the active matching stored silences.

  This holds for the **repaired** `Silences.Merge` (fixes/F1.diff: an update
  that turns a locally expired silence unexpired is re-indexed under a fresh
  version; model parameter `fix = true`).  For the pinned discipline
  (`fix = false`) the statement is false — `revival_counterexample`, by
  `decide` — and what remains true is `mutes_eq_bruteforce_partial`: the
  invariant survives every merge that does not revive an expired silence.

  The specification `activeMatching` evaluates the matchers *stored in the
  silence* (what `Query` and the API show), not the compiled matcher index.
  Continued in AM.Props.C02I (one `Mutes` call as the code runs it: store
  operations interleaved between its steps) and AM.Props.C02M (the matchers
  stored under an id never change through the API path; what `Merge` relies
  on; `mutes_eq_bruteforce_api` without any assumption on matchers).
-/
import AM.Lemmas.SilencerInv

namespace AM.Silence
open AM AM.AList

/-! ### what the two queries of `Mutes` return -/

def Stored (s : Store) (x : Sil) : Prop := ∃ m, lookup s.st x.id = some m ∧ m.sil = x

theorem stored_unique (s : Store) (x y : Sil) (hx : Stored s x) (hy : Stored s y) (h : x.id = y.id) : x = y := by
  obtain ⟨m, hm, rfl⟩ := hx
  obtain ⟨m', hm', rfl⟩ := hy
  rw [h, hm'] at hm
  injection hm with hm; rw [hm]

theorem contains_ap (st : SState) : ([SState.active, SState.pending].contains st = true) ↔ st ≠ .expired := by
  cases st <;> simp

theorem mem_oldSils (env : Env) (s : Store) (now : Int) (ce : CacheEntry) (hi : IndexInv s) (x : Sil) :
    x ∈ oldSils env s now ce ↔ Stored s x ∧ x.id ∈ ce.ids ∧ live x now := by
  unfold oldSils
  by_cases he : ce.ids.isEmpty = true
  · have : ce.ids = [] := by simpa using he
    simp [this]
  · simp only [he, Bool.false_eq_true, if_false]
    rw [mem_query env s now _ hi x]
    simp only [inScan, passes, activeOrPending, Bool.and_true, contains_ap, Stored, live]

theorem mem_newSils (env : Env) (s : Store) (now : Int) (ce : CacheEntry) (ls : LabelSet) (hi : IndexInv s) (x : Sil) :
    x ∈ newSils env s now ce ls ↔
      ce.version ≠ s.version ∧ Stored s x ∧ (∃ v', ce.version < v' ∧ (v', x.id) ∈ s.vi) ∧ live x now ∧
        ∃ ms, lookup s.mi x.id = some ms ∧ matchesSets env.re ms ls = true := by
  unfold newSils
  by_cases he : ce.version = s.version
  · simp [he]
  · simp only [he, if_false]
    rw [mem_query env s now _ hi x]
    simp only [inScan, passes, activeOrPending, Bool.and_eq_true, contains_ap, Stored, live]
    constructor
    · rintro ⟨h1, h2, h3, h4⟩
      refine ⟨fun h => he h, h1, h2, h3, ?_⟩
      cases hm : lookup s.mi x.id with
      | none => simp [hm] at h4
      | some ms => simp [hm] at h4; exact ⟨ms, rfl, h4⟩
    · rintro ⟨_, h1, h2, h3, ms, hm, h4⟩
      exact ⟨h1, h2, h3, by simp [hm, h4]⟩

/-! ### dedup by id -/

theorem mem_dedup_sub (l : List Sil) (seen : List String) (x : Sil) (h : x ∈ dedupSils l seen) : x ∈ l := by
  induction l generalizing seen with
  | nil => simp [dedupSils] at h
  | cons a l ih =>
    unfold dedupSils at h
    by_cases hc : seen.contains a.id = true
    · simp only [hc, if_true] at h
      exact List.mem_cons_of_mem _ (ih seen h)
    · simp only [hc] at h
      rcases List.mem_cons.mp h with h | h
      · rw [h]; exact List.mem_cons_self
      · exact List.mem_cons_of_mem _ (ih _ h)

theorem dedup_covers (l : List Sil) (seen : List String) (x : Sil) (h : x ∈ l) (hs : x.id ∉ seen) :
    ∃ y, y ∈ dedupSils l seen ∧ y.id = x.id := by
  induction l generalizing seen with
  | nil => simp at h
  | cons a l ih =>
    unfold dedupSils
    by_cases hc : seen.contains a.id = true
    · simp only [hc, if_true]
      rcases List.mem_cons.mp h with h | h
      · subst h
        exact absurd (by simpa using hc) hs
      · exact ih seen h hs
    · simp only [hc]
      by_cases ha : a.id = x.id
      · exact ⟨a, List.mem_cons_self, ha⟩
      · rcases List.mem_cons.mp h with h | h
        · subst h; exact absurd rfl ha
        · obtain ⟨y, hy, hid⟩ := ih (a.id :: seen) h (by
            intro hm
            rcases List.mem_cons.mp hm with hm | hm
            · exact ha hm.symm
            · exact hs hm)
          exact ⟨y, List.mem_cons_of_mem _ hy, hid⟩

/-! ### one call of `Mutes` -/

/-- the specification unfolded: a stored, active silence whose stored matchers match -/
theorem activeMatching_iff (msOf : String → MatcherSets) (env : Env) (s : Store) (now : Int) (ls : LabelSet)
    (hm : MiInv msOf s) (id : String) :
    activeMatching env s now ls id = true ↔
      ∃ m, lookup s.st id = some m ∧ getState m.sil now = .active ∧ matchesSets env.re (msOf id) ls = true := by
  unfold activeMatching
  cases hl : lookup s.st id with
  | none => simp
  | some m =>
    have := hm.st id m hl
    simp [this]

section one
variable (msOf : String → MatcherSets) (env : Env) (s : Store) (c : Cache) (now : Int) (ls : LabelSet)
variable (hi : IndexInv s) (hm : MiInv msOf s) (hc : CacheInv msOf env s c now)

/-- the silences `Mutes` looks at -/
def candidates : List Sil :=
  oldSils env s now (cacheGet c ls) ++ newSils env s now (cacheGet c ls) ls

include hi hm hc in
theorem cand_sound (x : Sil) (h : x ∈ candidates env s c now ls) :
    Stored s x ∧ live x now ∧ matchesSets env.re (msOf x.id) ls = true := by
  unfold candidates at h
  rcases List.mem_append.mp h with h | h
  · obtain ⟨h1, h2, h3⟩ := (mem_oldSils env s now _ hi x).mp h
    exact ⟨h1, h3, (hc.sound ls).2 x.id h2⟩
  · obtain ⟨_, h1, _, h3, ms, hms, h4⟩ := (mem_newSils env s now _ ls hi x).mp h
    have := hm.mi x.id ms hms
    subst this
    exact ⟨h1, h3, h4⟩

include hi hm hc in
theorem cand_complete (id : String) (m : Mesh) (hl : lookup s.st id = some m)
    (hmatch : matchesSets env.re (msOf id) ls = true) (hv : live m.sil now) :
    m.sil ∈ candidates env s c now ls := by
  have hid : m.sil.id = id := hi.keyId id m hl
  have hst : Stored s m.sil := ⟨m, by rw [hid]; exact hl, rfl⟩
  unfold candidates
  rcases hc.complete ls id m hl hmatch hv with hin | ⟨v, hmv, hlt⟩
  · exact List.mem_append_left _ ((mem_oldSils env s now _ hi m.sil).mpr ⟨hst, by rw [hid]; exact hin, hv⟩)
  · apply List.mem_append_right
    rw [mem_newSils env s now _ ls hi m.sil]
    have hb := (hi.viBound v id hmv).2
    refine ⟨by omega, hst, ⟨v, hlt, by rw [hid]; exact hmv⟩, hv, ?_⟩
    have hsome := hi.miHas id (by simp [hl])
    cases hmi : lookup s.mi id with
    | none => simp [hmi] at hsome
    | some ms =>
      have := hm.mi id ms hmi
      subst this
      exact ⟨msOf id, by rw [hid]; exact hmi, hmatch⟩

include hi hm hc in
theorem mem_dedup_cand (id : String) (m : Mesh) (hl : lookup s.st id = some m)
    (hmatch : matchesSets env.re (msOf id) ls = true) (hv : live m.sil now) :
    m.sil ∈ dedupSils (candidates env s c now ls) [] := by
  have hin := cand_complete msOf env s c now ls hi hm hc id m hl hmatch hv
  obtain ⟨y, hy, hyid⟩ := dedup_covers _ [] m.sil hin (by simp)
  have hys := (cand_sound msOf env s c now ls hi hm hc y (mem_dedup_sub _ _ y hy)).1
  have hms := (cand_sound msOf env s c now ls hi hm hc m.sil hin).1
  rw [← stored_unique s y m.sil hys hms hyid]
  exact hy

/-- the three outputs of `Mutes`, branch-free -/
theorem mutes_shape :
    (mutes env s c now ls).silencedBy = activeIdsOf now (dedupSils (candidates env s c now ls) []) ∧
    (mutes env s c now ls).muted = !(mutes env s c now ls).silencedBy.isEmpty ∧
    ((mutes env s c now ls).cache = c ∧ (cacheGet c ls).version = s.version ∧ (cacheGet c ls).ids = [] ∨
     (mutes env s c now ls).cache = put c ls (CacheEntry.mk (newVersion s (cacheGet c ls))
        (liveIdsOf now (dedupSils (candidates env s c now ls) [])))) := by
  unfold mutes
  by_cases hf : (decide ((cacheGet c ls).version = s.version) && (cacheGet c ls).ids.isEmpty) = true
  · have h1 : (cacheGet c ls).version = s.version := by simp at hf; exact hf.1
    have h2 : (cacheGet c ls).ids = [] := by simp at hf; exact hf.2
    have hcand : candidates env s c now ls = [] := by
      unfold candidates oldSils newSils; simp [h1, h2]
    simp only [hf, if_true]
    rw [hcand]
    exact ⟨by simp [dedupSils, activeIdsOf], by simp, Or.inl ⟨trivial, h1, h2⟩⟩
  · simp only [hf]
    by_cases he : (oldSils env s now (cacheGet c ls) ++ newSils env s now (cacheGet c ls) ls).isEmpty = true
    · have hcand : candidates env s c now ls = [] := by unfold candidates; simpa using he
      simp only [he, if_true]
      rw [hcand]
      exact ⟨by simp [dedupSils, activeIdsOf], by simp, Or.inr (by simp [dedupSils, liveIdsOf])⟩
    · simp only [he]
      exact ⟨rfl, rfl, Or.inr rfl⟩

include hi hm hc in
theorem mem_activeIds (id : String) :
    id ∈ activeIdsOf now (dedupSils (candidates env s c now ls) []) ↔ activeMatching env s now ls id = true := by
  rw [activeMatching_iff msOf env s now ls hm]
  unfold activeIdsOf
  simp only [List.mem_map, List.mem_filter, decide_eq_true_eq]
  constructor
  · rintro ⟨x, ⟨hx, hact⟩, rfl⟩
    obtain ⟨⟨m, hl, rfl⟩, _, hmatch⟩ := cand_sound msOf env s c now ls hi hm hc x (mem_dedup_sub _ _ x hx)
    exact ⟨m, hl, hact, hmatch⟩
  · rintro ⟨m, hl, hact, hmatch⟩
    have hv : live m.sil now := by unfold live; rw [hact]; simp
    exact ⟨m.sil, ⟨mem_dedup_cand msOf env s c now ls hi hm hc id m hl hmatch hv, hact⟩, hi.keyId id m hl⟩

include hi hm hc in
/-- **One call of `Mutes` is correct and leaves a valid cache.** -/
theorem mutes_correct :
    (∀ id, id ∈ (mutes env s c now ls).silencedBy ↔ activeMatching env s now ls id = true) ∧
    ((mutes env s c now ls).muted = true ↔ ∃ id, activeMatching env s now ls id = true) ∧
    CacheInv msOf env s (mutes env s c now ls).cache now := by
  obtain ⟨hby, hmu, hcache⟩ := mutes_shape env s c now ls
  have hmem := mem_activeIds msOf env s c now ls hi hm hc
  refine ⟨?_, ?_, ?_⟩
  · intro id; rw [hby]; exact hmem id
  · rw [hmu, hby]
    constructor
    · intro h
      cases hl : activeIdsOf now (dedupSils (candidates env s c now ls) []) with
      | nil => simp [hl] at h
      | cons a l => exact ⟨a, (hmem a).mp (by rw [hl]; exact List.mem_cons_self)⟩
    · rintro ⟨id, h⟩
      have := (hmem id).mpr h
      cases hl : activeIdsOf now (dedupSils (candidates env s c now ls) []) with
      | nil => rw [hl] at this; simp at this
      | cons a l => simp
  · rcases hcache with ⟨h, _, _⟩ | h
    · rw [h]; exact hc
    · rw [h]
      constructor
      · intro ls'
        rw [cacheGet_put]
        by_cases hls : ls = ls'
        · subst hls
          simp only [if_true]
          refine ⟨?_, ?_⟩
          · unfold newVersion
            split
            · exact (hc.sound ls).1
            · exact Nat.le_refl _
          · intro id hid
            unfold liveIdsOf at hid
            simp only [List.mem_map, List.mem_filter] at hid
            obtain ⟨x, ⟨hx, _⟩, rfl⟩ := hid
            exact (cand_sound msOf env s c now ls hi hm hc x (mem_dedup_sub _ _ x hx)).2.2
        · simp only [hls, if_false]; exact hc.sound ls'
      · intro ls' id m hl hmatch hv
        rw [cacheGet_put]
        by_cases hls : ls = ls'
        · subst hls
          simp only [if_true]
          left
          unfold liveIdsOf
          simp only [List.mem_map, List.mem_filter]
          refine ⟨m.sil, ⟨mem_dedup_cand msOf env s c now ls hi hm hc id m hl hmatch hv, ?_⟩, hi.keyId id m hl⟩
          simpa [live] using hv
        · simp only [hls, if_false]; exact hc.complete ls' id m hl hmatch hv

end one

/-! ### histories -/

/-- the whole instance: store + mute cache -/
structure Sys where
  store : Store := {}
  cache : Cache := []

inductive Op where
  | set (now : Int) (inp : SilIn) (newId : String) (big : Bool)
  | expire (now : Int) (id : String)
  | merge (now : Int) (oversized : Bool) (b : List Mesh)
  | gc (now : Int)
  | postGC (fps : List LabelSet)          -- alert garbage collection
  | reload                                -- snapshot + restart: new store, new (empty) cache
  | mutes (now : Int) (ls : LabelSet)

def Op.time : Op → Option Int
  | .set t _ _ _ => some t
  | .expire t _ => some t
  | .merge t _ _ => some t
  | .gc t => some t
  | .mutes t _ => some t
  | .postGC _ => none
  | .reload => none

/-- one operation (`fix` = the indexing discipline of `Merge`) -/
def Sys.step (fix : Bool) (env : Env) (ret : Int) (maxSil : Nat) (σ : Sys) : Op → Sys
  | .set now inp newId big =>
    match set env ret maxSil now σ.store inp newId big with
    | .ok r => { σ with store := r.store }
    | .error _ => σ
  | .expire now id =>
    match expire ret now σ.store id with
    | .ok r => { σ with store := r.1 }
    | .error _ => σ
  | .merge now ov b => { σ with store := (mergeBatch fix now ov σ.store b).1 }
  | .gc now => { σ with store := (gc now σ.store).1 }
  | .postGC fps => { σ with cache := postGC σ.cache fps }
  | .reload => { store := reload σ.store, cache := [] }
  | .mutes now ls => { σ with cache := (mutes env σ.store σ.cache now ls).cache }

/-- Side conditions on the inputs of an operation, in the state it is applied to:
    matchers are a function of the id (what enters through `Merge` carries `msOf id`, the
    uuid drawn by `Set` is associated with the submitted matchers) and the uuid drawn is
    not the id of a stored silence. -/
def Op.Ok (msOf : String → MatcherSets) (σ : Sys) : Op → Prop
  | .set _ inp newId _ => inp.sets = msOf newId ∧ lookup σ.store.st newId = none
  | .merge _ _ b => ∀ e ∈ b, e.sil.sets = msOf e.sil.id
  | _ => True

structure Inv (msOf : String → MatcherSets) (env : Env) (σ : Sys) (now : Int) : Prop where
  idx : IndexInv σ.store
  mi : MiInv msOf σ.store
  cache : CacheInv msOf env σ.store σ.cache now

theorem inv_init (msOf : String → MatcherSets) (env : Env) (now : Int) : Inv msOf env {} now :=
  ⟨indexInv_empty, miInv_empty msOf, cacheInv_fresh msOf env {} indexInv_empty now⟩

/-! #### the store operations are `Step`s and keep `MiInv` -/

theorem miInv_expireCore (msOf : String → MatcherSets) (ret now : Int) (s : Store) (p : Mesh)
    (hp : p.sil.sets = msOf p.sil.id) (h : MiInv msOf s) : MiInv msOf (expireCore ret now s p.sil).1 := by
  unfold expireCore
  cases hx : expiredVersion now p.sil with
  | none => exact h
  | some x =>
    apply miInv_setSilence msOf now s _ _ h
    have hid : x.id = p.sil.id := expiredVersion_id now p.sil x hx
    have hsets : x.sets = p.sil.sets := by
      unfold expiredVersion at hx
      cases hg : getState p.sil now <;> simp [hg] at hx <;> rw [← hx]
    show x.sets = msOf x.id
    rw [hsets, hid]; exact hp

theorem expire_step (msOf : String → MatcherSets) (ret now : Int) (s : Store) (id : String) (r : Store × List Mesh)
    (hi : IndexInv s) (hm : MiInv msOf s) (h : expire ret now s id = .ok r) :
    Step now s r.1 ∧ MiInv msOf r.1 := by
  unfold expire at h
  cases hl : lookup s.st id with
  | none => simp [hl] at h
  | some p =>
    simp [hl] at h
    subst h
    have hpid : p.sil.id = id := hi.keyId id p hl
    exact ⟨step_expireCore ret now s p (by rw [hpid]; exact hl),
      miInv_expireCore msOf ret now s p (by rw [hpid]; exact hm.st id p hl) hm⟩

theorem set_step (msOf : String → MatcherSets) (env : Env) (ret : Int) (maxSil : Nat) (now : Int) (s : Store)
    (inp : SilIn) (newId : String) (big : Bool) (r : SetOk) (hi : IndexInv s) (hm : MiInv msOf s)
    (hok : inp.sets = msOf newId) (hfresh : lookup s.st newId = none)
    (h : set env ret maxSil now s inp newId big = .ok r) :
    Step now s r.store ∧ MiInv msOf r.store := by
  unfold set at h
  by_cases hv : (!validate env inp.sets (inp.start.getD now) inp.stop) = true
  · simp [hv] at h
  · by_cases hn : inp.id ≠ "" ∧ lookup s.st inp.id = none
    · simp [hv, hn] at h
    · simp only [hv, hn, if_false] at h
      by_cases hu : canUpdatePrev (lookup s.st inp.id) (silOfIn inp now) now = true
      · simp only [hu, if_true] at h
        unfold setUpdate at h
        by_cases hb : big = true
        · simp [hb] at h
        · simp only [hb] at h
          injection h with h; subst h
          -- in place: the stored version is not expired, matchers are equal
          unfold canUpdatePrev at hu
          cases hl : lookup s.st inp.id with
          | none => simp [hl] at hu
          | some p =>
            simp only [hl] at hu
            have hsets : p.sil.sets = inp.sets := by
              unfold canUpdate at hu; simp [silOfIn] at hu; exact of_decide_eq_true hu.1
            have hlive : live p.sil now := by
              intro he; unfold canUpdate at hu; simp [he] at hu
            refine ⟨?_, ?_⟩
            · apply step_setSilence
              intro q hq _
              have : (toMesh ret (silOfIn inp now)).sil.id = inp.id := rfl
              rw [this, hl] at hq
              injection hq with hq; subst hq; exact hlive
            · apply miInv_setSilence msOf now s _ _ hm
              show inp.sets = msOf inp.id
              rw [← hsets]; exact hm.st inp.id p hl
      · simp only [hu] at h
        unfold setCreate at h
        by_cases hlim : maxSil > 0 ∧ s.st.length + 1 > maxSil
        · simp [hlim] at h
        · by_cases hb : big = true
          · simp [hlim, hb] at h
          · simp only [hlim, hb, if_false] at h
            injection h with h; subst h
            simp only
            -- expire the replaced silence (if any), then add the new one under the drawn id
            have h1 : Step now s (expirePrev ret now s (lookup s.st inp.id)).1 ∧
                MiInv msOf (expirePrev ret now s (lookup s.st inp.id)).1 ∧
                lookup (expirePrev ret now s (lookup s.st inp.id)).1.st newId = none := by
              cases hl : lookup s.st inp.id with
              | none => exact ⟨step_refl now s, hm, hfresh⟩
              | some p =>
                have hpid : p.sil.id = inp.id := hi.keyId inp.id p hl
                refine ⟨step_expireCore ret now s p (by rw [hpid]; exact hl),
                  miInv_expireCore msOf ret now s p (by rw [hpid]; exact hm.st inp.id p hl) hm, ?_⟩
                simp only [expirePrev]
                rw [expireCore_lookup_ne ret now s p.sil newId]
                · exact hfresh
                · rw [hpid]; intro he; rw [he, hfresh] at hl; cases hl
            obtain ⟨hs1, hm1, hf1⟩ := h1
            refine ⟨step_trans hs1 ?_, ?_⟩
            · apply step_setSilence
              intro q hq _
              have : (toMesh ret (raised (silOfIn inp now) newId now)).sil.id = newId := rfl
              rw [this, hf1] at hq
              cases hq
            · apply miInv_setSilence msOf now _ _ _ hm1
              show inp.sets = msOf newId
              exact hok

theorem mergeBatch_step (msOf : String → MatcherSets) (fix : Bool) (now : Int) (ov : Bool) (s : Store) (b : List Mesh)
    (hm : MiInv msOf s) (hok : ∀ e ∈ b, e.sil.sets = msOf e.sil.id)
    (hrev : fix = true) :
    Step now s (mergeBatch fix now ov s b).1 ∧ MiInv msOf (mergeBatch fix now ov s b).1 := by
  unfold mergeBatch
  have hdec : ∀ kv ∈ decodeBatch b, kv.2.sil.sets = msOf kv.2.sil.id := by
    unfold decodeBatch
    suffices h : ∀ (acc : AList String Mesh), (∀ kv ∈ acc, kv.2.sil.sets = msOf kv.2.sil.id) →
        ∀ kv ∈ b.foldl (fun st e => put st e.sil.id e) acc, kv.2.sil.sets = msOf kv.2.sil.id from h [] (by simp)
    induction b with
    | nil => intro acc h; exact h
    | cons e b ih =>
      intro acc h
      simp only [List.foldl_cons]
      apply ih (fun x hx => hok x (List.mem_cons_of_mem _ hx))
      intro kv hkv
      -- every entry of `put acc k e` is an entry of `acc` or `(k, e)`
      have : ∀ (l : AList String Mesh), (∀ kv ∈ l, kv.2.sil.sets = msOf kv.2.sil.id) →
          ∀ kv ∈ put l e.sil.id e, kv.2.sil.sets = msOf kv.2.sil.id := by
        intro l
        induction l with
        | nil => intro _ kv hkv; simp [put] at hkv; rw [hkv]; exact hok e List.mem_cons_self
        | cons hd tl ihl =>
          intro hl kv hkv
          unfold put at hkv
          by_cases hk : hd.1 = e.sil.id
          · simp only [hk, if_true] at hkv
            rcases List.mem_cons.mp hkv with hkv | hkv
            · rw [hkv]; exact hok e List.mem_cons_self
            · exact hl kv (List.mem_cons_of_mem _ hkv)
          · simp only [hk] at hkv
            rcases List.mem_cons.mp hkv with hkv | hkv
            · rw [hkv]; exact hl hd List.mem_cons_self
            · exact ihl (fun x hx => hl x (List.mem_cons_of_mem _ hx)) kv hkv
      exact this acc h kv hkv
  generalize decodeBatch b = l at hdec
  suffices h : ∀ (acc : Store × Nat), Step now s acc.1 → MiInv msOf acc.1 →
      Step now s (l.foldl (fun (acc : Store × Nat) kv =>
        let r := mergeOne fix now acc.1 kv.2
        (r.1, if r.2 ≠ .refused ∧ !ov then acc.2 + 1 else acc.2)) acc).1 ∧
      MiInv msOf (l.foldl (fun (acc : Store × Nat) kv =>
        let r := mergeOne fix now acc.1 kv.2
        (r.1, if r.2 ≠ .refused ∧ !ov then acc.2 + 1 else acc.2)) acc).1 from h (s, 0) (step_refl now s) hm
  induction l with
  | nil => intro acc h1 h2; exact ⟨h1, h2⟩
  | cons kv l ih =>
    intro acc h1 h2
    simp only [List.foldl_cons]
    apply ih (fun x hx => hdec x (List.mem_cons_of_mem _ hx))
    · exact step_trans h1 (step_mergeOne fix now acc.1 kv.2 (Or.inl hrev))
    · exact miInv_mergeOne msOf fix now acc.1 kv.2 (hdec kv List.mem_cons_self) h2

/-! #### every operation preserves the invariant -/

/-- **`cache_inv`: preserved by Set, Expire, Merge, GC, PostGC, reload, Mutes and the passage
    of time** (repaired `Merge`). -/
theorem inv_step (msOf : String → MatcherSets) (env : Env) (ret : Int) (maxSil : Nat) (σ : Sys) (op : Op)
    (now : Int) (h : Inv msOf env σ now) (hok : op.Ok msOf σ) (ht : ∀ t, op.time = some t → now ≤ t) :
    Inv msOf env (σ.step true env ret maxSil op) ((op.time).getD now) := by
  cases op with
  | set t inp newId big =>
    have hc := cacheInv_time msOf env σ.store σ.cache now t (ht t rfl) h.cache
    simp only [Sys.step, Op.time, Option.getD]
    cases hs : set env ret maxSil t σ.store inp newId big with
    | error _ => exact ⟨h.idx, h.mi, hc⟩
    | ok r =>
      obtain ⟨h1, h2⟩ := set_step msOf env ret maxSil t σ.store inp newId big r h.idx h.mi hok.1 hok.2 hs
      exact ⟨indexInv_set env ret maxSil t σ.store inp newId big r h.idx hs, h2, cacheInv_step msOf env _ _ _ t hc h1⟩
  | expire t id =>
    have hc := cacheInv_time msOf env σ.store σ.cache now t (ht t rfl) h.cache
    simp only [Sys.step, Op.time, Option.getD]
    cases hs : expire ret t σ.store id with
    | error _ => exact ⟨h.idx, h.mi, hc⟩
    | ok r =>
      obtain ⟨h1, h2⟩ := expire_step msOf ret t σ.store id r h.idx h.mi hs
      exact ⟨indexInv_expire ret t σ.store id r h.idx hs, h2, cacheInv_step msOf env _ _ _ t hc h1⟩
  | merge t ov b =>
    have hc := cacheInv_time msOf env σ.store σ.cache now t (ht t rfl) h.cache
    simp only [Sys.step, Op.time, Option.getD]
    obtain ⟨h1, h2⟩ := mergeBatch_step msOf true t ov σ.store b h.mi hok rfl
    exact ⟨indexInv_mergeBatch true t ov σ.store b h.idx, h2, cacheInv_step msOf env _ _ _ t hc h1⟩
  | gc t =>
    have hc := cacheInv_time msOf env σ.store σ.cache now t (ht t rfl) h.cache
    simp only [Sys.step, Op.time, Option.getD]
    exact ⟨indexInv_gc t σ.store h.idx, miInv_gc msOf t σ.store h.idx h.mi,
      cacheInv_step msOf env _ _ _ t hc (step_gc t t σ.store h.idx)⟩
  | postGC fps =>
    simp only [Sys.step, Op.time, Option.getD]
    exact ⟨h.idx, h.mi, cacheInv_postGC msOf env σ.store σ.cache now fps h.idx h.cache⟩
  | reload =>
    simp only [Sys.step, Op.time, Option.getD]
    exact ⟨indexInv_reload σ.store, miInv_reload msOf σ.store h.idx h.mi,
      cacheInv_fresh msOf env _ (indexInv_reload σ.store) now⟩
  | mutes t ls =>
    have hc := cacheInv_time msOf env σ.store σ.cache now t (ht t rfl) h.cache
    simp only [Sys.step, Op.time, Option.getD]
    exact ⟨h.idx, h.mi, (mutes_correct msOf env σ.store σ.cache t ls h.idx h.mi hc).2.2⟩

/-- a history: operations with their side conditions, time moving forward -/
def Run (msOf : String → MatcherSets) (env : Env) (ret : Int) (maxSil : Nat) : Sys → Int → List Op → Prop
  | _, _, [] => True
  | σ, now, op :: rest =>
    op.Ok msOf σ ∧ (∀ t, op.time = some t → now ≤ t) ∧
      Run msOf env ret maxSil (σ.step true env ret maxSil op) ((op.time).getD now) rest

def lastTime (now : Int) (ops : List Op) : Int := ops.foldl (fun t op => (op.time).getD t) now

theorem reachable_inv (msOf : String → MatcherSets) (env : Env) (ret : Int) (maxSil : Nat) (ops : List Op)
    (σ : Sys) (now : Int) (h : Inv msOf env σ now) (hr : Run msOf env ret maxSil σ now ops) :
    Inv msOf env (ops.foldl (Sys.step true env ret maxSil) σ) (lastTime now ops) := by
  induction ops generalizing σ now with
  | nil => exact h
  | cons op rest ih =>
    obtain ⟨hok, ht, hrest⟩ := hr
    exact ih _ _ (inv_step msOf env ret maxSil σ op now h hok ht) hrest

/-- **The mute verdict equals a direct evaluation of the stored silences, after every
    history.**  From the empty instance, after any run of Set / edit / Expire / Merge / GC /
    alert GC / reload / Mutes, a `Mutes` call at the current or a later instant reports
    muted iff some stored silence is active and matches, and `silencedBy` is exactly the
    set of those silences' ids. -/
theorem mutes_eq_bruteforce (msOf : String → MatcherSets) (env : Env) (ret : Int) (maxSil : Nat) (ops : List Op)
    (t0 : Int) (hr : Run msOf env ret maxSil {} t0 ops) (now : Int) (hnow : lastTime t0 ops ≤ now) (ls : LabelSet) :
    let σ := ops.foldl (Sys.step true env ret maxSil) {}
    let r := mutes env σ.store σ.cache now ls
    (r.muted = true ↔ ∃ id, activeMatching env σ.store now ls id = true) ∧
    (∀ id, id ∈ r.silencedBy ↔ activeMatching env σ.store now ls id = true) := by
  intro σ r
  have hinv := reachable_inv msOf env ret maxSil ops {} t0 (inv_init msOf env t0) hr
  have hc := cacheInv_time msOf env _ _ _ now hnow hinv.cache
  obtain ⟨h1, h2, _⟩ := mutes_correct msOf env σ.store σ.cache now ls hinv.idx hinv.mi hc
  exact ⟨h2, h1⟩

/-- What the silencer stage acts on: an alert is dropped from the notification iff it is muted,
    so no flush at `now` lists an alert that matches an active stored silence, and every alert
    that matches none is kept (`MuteStage.Exec` filters with `Mutes`). -/
theorem takes_effect_next_flush (msOf : String → MatcherSets) (env : Env) (ret : Int) (maxSil : Nat) (ops : List Op)
    (t0 : Int) (hr : Run msOf env ret maxSil {} t0 ops) (now : Int) (hnow : lastTime t0 ops ≤ now) (ls : LabelSet) :
    let σ := ops.foldl (Sys.step true env ret maxSil) {}
    ((mutes env σ.store σ.cache now ls).muted = false ↔ ∀ id, activeMatching env σ.store now ls id = false) := by
  intro σ
  have h := (mutes_eq_bruteforce msOf env ret maxSil ops t0 hr now hnow ls).1
  constructor
  · intro hm id
    cases ha : activeMatching env σ.store now ls id with
    | false => rfl
    | true => have := h.mpr ⟨id, ha⟩; rw [hm] at this; cases this
  · intro hall
    cases hm : (mutes env σ.store σ.cache now ls).muted with
    | false => rfl
    | true =>
      obtain ⟨id, hid⟩ := h.mp hm
      rw [hall id] at hid; cases hid

/-- C09's `effective_after_merge`: right after `Silences.Merge` of any message (repaired
    discipline) — new silences, remote edits, remote expiries, revivals — the mute verdict of
    an instance whose cache was valid before is the brute-force verdict on the merged state:
    a silence created or expired through another instance's API is effective here as soon as
    it has been merged. -/
theorem effective_after_merge (msOf : String → MatcherSets) (env : Env) (now : Int) (ov : Bool) (s : Store) (c : Cache)
    (b : List Mesh) (hi : IndexInv s) (hm : MiInv msOf s) (hc : CacheInv msOf env s c now)
    (hok : ∀ e ∈ b, e.sil.sets = msOf e.sil.id) (ls : LabelSet) :
    let s' := (mergeBatch true now ov s b).1
    let r := mutes env s' c now ls
    (r.muted = true ↔ ∃ id, activeMatching env s' now ls id = true) ∧
    (∀ id, id ∈ r.silencedBy ↔ activeMatching env s' now ls id = true) := by
  intro s' r
  obtain ⟨hs, hm'⟩ := mergeBatch_step msOf true now ov s b hm hok rfl
  have hi' := indexInv_mergeBatch true now ov s b hi
  have hc' := cacheInv_step msOf env s s' c now hc hs
  obtain ⟨h1, h2, _⟩ := mutes_correct msOf env s' c now ls hi' hm' hc'
  exact ⟨h2, h1⟩

/-! ### the pinned discipline (`fix = false`): partial theorem and counterexample -/

/-- Under the pinned `Merge` (index only when added) the invariant still survives every
    merge that does **not** revive a locally expired silence.  (`Revives` is the classifier
    of finding F1.) -/
theorem mutes_eq_bruteforce_partial (msOf : String → MatcherSets) (env : Env) (now : Int) (s : Store) (c : Cache)
    (e : Mesh) (hi : IndexInv s) (hm : MiInv msOf s) (hc : CacheInv msOf env s c now)
    (hok : e.sil.sets = msOf e.sil.id) (hnr : ¬ Revives now s e) (ls : LabelSet) :
    let s' := (mergeOne false now s e).1
    let r := mutes env s' c now ls
    (r.muted = true ↔ ∃ id, activeMatching env s' now ls id = true) ∧
    (∀ id, id ∈ r.silencedBy ↔ activeMatching env s' now ls id = true) := by
  intro s' r
  have hs := step_mergeOne false now s e (Or.inr hnr)
  have hi' := indexInv_mergeOne false now s e hi
  have hm' := miInv_mergeOne msOf false now s e hok hm
  have hc' := cacheInv_step msOf env s s' c now hc hs
  obtain ⟨h1, h2, _⟩ := mutes_correct msOf env s' c now ls hi' hm' hc'
  exact ⟨h2, h1⟩

private def envC : Env := { re := fun _ _ => false, reOk := fun _ => true, nameOk := fun n => n ≠ "" }
private def lsC : LabelSet := [("a", "1")]
private def inC : SilIn := { id := "", sets := [[⟨.eq, "a", "1"⟩]], start := some 0, stop := some 10, comment := "" }
/-- the late replicated edit: same id, newer update time, later end -/
private def revC : Mesh :=
  { sil := { id := "u", sets := [[⟨.eq, "a", "1"⟩]], start := 0, stop := 20, updated := 4, comment := "" }, exp := 20 }

/-- the history of DESIGN §7 F1 under discipline `fix`: create; Mutes; Expire; Mutes; Merge of
    a newer, longer version; Mutes -/
private def histC (fix : Bool) : Sys :=
  [Op.set 0 inC "u" false, .mutes 1 lsC, .expire 2 "u", .mutes 3 lsC, .merge 5 false [revC]].foldl
    (Sys.step fix envC 0 0) {}

/-- **F1, pinned tree**: after that history the store says the silence is active and matches,
    yet `Mutes` answers "not muted"; under the repaired discipline it answers "muted". -/
theorem revival_counterexample :
    activeMatching envC (histC false).store 6 lsC "u" = true ∧
    (mutes envC (histC false).store (histC false).cache 6 lsC).muted = false ∧
    (mutes envC (histC true).store (histC true).cache 6 lsC).muted = true := by
  decide

/-- non-vacuity: the hypotheses of `mutes_eq_bruteforce` are satisfiable by a real history -/
example : Run (fun _ => [[⟨.eq, "a", "1"⟩]]) envC 0 0 {} 0 [Op.set 0 inC "u" false, .mutes 1 lsC, .gc 2] := by
  refine ⟨⟨rfl, rfl⟩, ?_, ⟨trivial, ?_, ⟨trivial, ?_, trivial⟩⟩⟩
  · intro t h; simp [Op.time] at h; omega
  · intro t h; simp [Op.time] at h; simp [Op.time]; omega
  · intro t h; simp [Op.time] at h; simp [Op.time]; omega

end AM.Silence
