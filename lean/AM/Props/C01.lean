/-
  C01 — Eligible firing alerts reach every routed receiver within the batching
  bound.  Theorems over `AM.Group` (timer discipline, store) and `AM.Dedup`
  (pipeline tail), composed with the C04 history invariant.

  The bound is arithmetic on the group timer (`first_tick_le`, `flush_gap_le`);
  at any flush inside the window an eligible alert is either listed as firing in
  the notification sent by that flush, or the last recorded delivery — a real
  send, less than repeat_interval old — already lists it
  (`eligible_listed_within_bound`).
-/
import AM.Props.C05

namespace AM.Group
open AM AM.AList

/-- The first flush of a new group is due within group_wait of its creation
    (at once for an alert older than group_wait). -/
theorem first_tick_le (now gw : Int) (a : GAlert) (hgw : 0 ≤ gw) :
    now ≤ (create now gw a).nextTick ∧ (create now gw a).nextTick ≤ now + gw ∧
    (a.starts + gw < now → (create now gw a).nextTick = now) := by
  unfold create
  simp only
  split <;> simp_all <;> omega

/-- The wall instant at which the run loop handles the next tick: the tick's fire
    instant, or the end of the previous flush when that overran. -/
def nextWall (wall gi prevEnd : Int) : Int :=
  if wall + gi < prevEnd then prevEnd else wall + gi

/-- Consecutive flush starts of a live group are at most `max(group_interval, d)`
    apart, `d` being the duration of the earlier flush (itself bounded by the
    flush timeout), and the later flush carries the tick `wall + group_interval`. -/
theorem flush_gap_le (g : Group) (wall gi prevEnd timeout : Int)
    (hend : prevEnd ≤ wall + timeout) (hstart : wall ≤ prevEnd) :
    (rearm g wall gi).nextTick = wall + gi ∧
    nextWall wall gi prevEnd - wall ≤ (if gi < timeout then timeout else gi) ∧
    (rearm g wall gi).nextTick ≤ nextWall wall gi prevEnd := by
  unfold rearm nextWall
  simp only
  refine ⟨trivial, ?_, ?_⟩
  · split <;> split <;> omega
  · split <;> omega

/-- A stored alert that has not ended and is not muted is among the firing
    alerts handed to the pipeline by every flush. -/
theorem stored_firing_is_flushed (g : Group) (wall : Int) (id : Nat) (a : GAlert)
    (h : lookup g.alerts id = some a) (hf : wall < a.ends) :
    (a, false) ∈ partition g wall := by
  have := partition_lists_all g wall id a h
  have hr : a.resolvedAt wall = false := by simp [GAlert.resolvedAt]; omega
  rwa [hr] at this

end AM.Group

namespace AM.Dedup
open AM AM.AList AM.Nflog

theorem flushStep_fail_keeps_state (c : Cfg) (s : State) (f : Flush)
    (h : (flushStep c s f).ok = false) :
    (flushStep c s f).st = s ∧ (flushStep c s f).logged = false ∧ (flushStep c s f).sent = none := by
  unfold flushStep at h ⊢
  cases hp : path c s f <;> simp [hp] at h ⊢

/-- Everything that justifies a notification keeps justifying it as time passes. -/
theorem cause_mono_tick (entry : Option Entry) (firing resolved : List Nat) (sr : Bool) (rep t t' : Int)
    (h : Cause entry firing resolved sr rep t) (ht : t ≤ t') : Cause entry firing resolved sr rep t' := by
  unfold Cause at *
  cases entry with
  | none => exact h
  | some e =>
    simp only at h ⊢
    rcases h with h | h | h | h
    · exact Or.inl h
    · exact Or.inr (Or.inl h)
    · exact Or.inr (Or.inr (Or.inl h))
    · exact Or.inr (Or.inr (Or.inr ⟨h.1, by omega⟩))

/-- **A failed delivery never discharges the obligation**: it writes no log
    entry, so the same batch flushed again at the next group interval (any later
    tick) is attempted again, and is delivered as soon as the integration accepts. -/
theorem failed_flush_keeps_obligation (c : Cfg) (s : State) (f : Flush) (f' : Flush)
    (hfail : path c s f = .fail)
    (hsame : f'.firing = f.firing ∧ f'.resolved = f.resolved) (hlater : f.tick ≤ f'.tick)
    (hacc : f'.accept = true) :
    (flushStep c s f).st = s ∧ (flushStep c (flushStep c s f).st f').sent.isSome = true := by
  have hst : (flushStep c s f).st = s := by unfold flushStep; simp [hfail]
  refine ⟨hst, ?_⟩
  rw [hst, flush_sent_iff]
  -- the failed flush had a cause, was not the short-cut, and was non-empty
  have hp := hfail
  unfold path reasonOf at hp
  by_cases h0 : f.firing = [] ∧ f.resolved = []
  · simp [h0] at hp
  · simp only [h0, if_false] at hp
    by_cases h1 : (needsUpdate (query s c.key) f.firing f.resolved c.sendResolved c.repeatI f.tick).shouldNotify = false
    · simp [h1] at hp
    · simp only [h1, if_false] at hp
      by_cases h2 : c.sendResolved = false ∧ f.firing = []
      · simp [h2] at hp
      · have h1' : (needsUpdate (query s c.key) f.firing f.resolved c.sendResolved c.repeatI f.tick).shouldNotify = true := by
          simpa using h1
        have hc := (needsUpdate_iff _ _ _ _ _ _).mp h1'
        rw [hsame.1, hsame.2]
        refine ⟨?_, cause_mono_tick _ _ _ _ _ _ _ hc hlater, h2, hacc⟩
        by_cases hf : f.firing = []
        · right; intro hr; exact h0 ⟨hf, hr⟩
        · left; exact hf

/-- At one flush: an alert handed over as firing is listed as firing by the
    notification this flush sends, or the consulted log entry already lists it
    and is less than repeat_interval old — when the integration accepts. -/
theorem eligible_listed_or_recorded (c : Cfg) (s : State) (f : Flush) (x : Nat)
    (hx : x ∈ f.firing) (hacc : f.accept = true) :
    (∃ n, (flushStep c s f).sent = some n ∧ x ∈ n.firing) ∨
    (∃ e, query s c.key = some e ∧ x ∈ e.firing ∧ f.tick ≤ e.ts + c.repeatI) := by
  have hne : f.firing ≠ [] := by intro h; rw [h] at hx; simp at hx
  by_cases hs : (flushStep c s f).sent.isSome = true
  · left
    cases hn : (flushStep c s f).sent with
    | none => simp [hn] at hs
    | some n => exact ⟨n, rfl, by rw [(sent_firing c s f n hn).1]; exact hx⟩
  · right
    rw [flush_sent_iff] at hs
    have hnc : ¬ Cause (query s c.key) f.firing f.resolved c.sendResolved c.repeatI f.tick := by
      intro hc; exact hs ⟨Or.inl hne, hc, fun h => hne h.2, hacc⟩
    cases hq : query s c.key with
    | none => rw [hq] at hnc; exact absurd hne hnc
    | some e =>
      rw [hq] at hnc
      unfold Cause at hnc
      simp only [not_or] at hnc
      obtain ⟨h1, _, _, h4⟩ := hnc
      refine ⟨e, rfl, ?_, ?_⟩
      · apply Classical.byContradiction
        intro hn; exact h1 ⟨x, hx, hn⟩
      · apply Classical.byContradiction
        intro hn; exact h4 ⟨hne, by omega⟩

/-- **C01 at every flush of every history.**  Whenever a flush hands over `x` as
    firing (stored, not ended, not suppressed — `stored_firing_is_flushed`) and
    the integration accepts, then either this flush's notification lists `x` as
    firing, or the last recorded delivery `L` for this group and integration was a
    real send that listed `x` as firing and is less than repeat_interval old. -/
theorem eligible_listed_within_bound (c : Cfg) (hret : 0 ≤ c.retention) (hrep : 0 ≤ c.repeatI)
    (evs : List Ev) (hc : Chain 0 0 evs) :
    ∀ r ∈ runG c evs [] {}, ∀ x ∈ r.f.firing, r.f.accept = true →
      (∃ n, r.o.sent = some n ∧ x ∈ n.firing) ∨
      (∃ L, r.g.last = some L ∧ r.g.goneAt = none ∧ r.g.sent = true ∧ x ∈ L.firing ∧
            r.f.tick ≤ L.wall + c.repeatI) := by
  intro r hr x hx hacc
  have hinv0 : Inv c [] {} 0 0 := by simp [Inv, NoDupKeys, query]
  obtain ⟨tf', t', hi, _, _, _, ho⟩ := inv_everywhere c hret hrep evs [] {} 0 0 hinv0 hc r hr
  rcases eligible_listed_or_recorded c r.s r.f x hx hacc with h | ⟨e, he, hxe, hts⟩
  · left; rw [ho]; exact h
  · right
    obtain ⟨_, _, hg⟩ := hi
    cases hgl : r.g.last with
    | none => rw [hgl] at hg; simp only at hg; rw [hg.1] at he; simp at he
    | some L =>
      rw [hgl] at hg; simp only at hg
      obtain ⟨_, hS, hg⟩ := hg
      cases hga : r.g.goneAt with
      | none =>
        rw [hga] at hg; simp only at hg
        rw [hg] at he
        have : e = entryOf c L := by simpa using he.symm
        subst this
        have hxL : x ∈ L.firing := by simpa [entryOf] using hxe
        refine ⟨L, rfl, rfl, hS ?_, hxL, by simpa [entryOf] using hts⟩
        intro h; rw [h] at hxL; simp at hxL
      | some y =>
        rw [hga] at hg; simp only at hg
        rw [hg.1] at he; simp at he

/-- The latest notification never omits an eligible alert for long: if the last
    recorded delivery does not list `x` as firing, the very next flush that hands
    `x` over sends a notification listing it. -/
theorem latest_never_omits (c : Cfg) (s : State) (f : Flush) (e : Entry) (x : Nat)
    (hq : query s c.key = some e) (hx : x ∈ f.firing) (hom : x ∉ e.firing) (hacc : f.accept = true) :
    ∃ n, (flushStep c s f).sent = some n ∧ x ∈ n.firing := by
  rcases eligible_listed_or_recorded c s f x hx hacc with h | ⟨e', he', hxe, _⟩
  · exact h
  · rw [hq] at he'
    have : e = e' := by simpa using he'
    subst this; exact absurd hxe hom

example : (AM.Group.create 100 30 { id := 1, starts := 95, ends := 1000, upd := 100 }).nextTick = 130 := by decide
example : (AM.Group.create 100 30 { id := 1, starts := 10, ends := 1000, upd := 100 }).nextTick = 100 := by decide

end AM.Dedup

namespace AM.Group

/-- The counter follows the map: it equals the number of mapped groups, live or
    destroyed-and-not-yet-collected; the two lists are duplicate-free and disjoint. -/
structure GInv (m : GMap) : Prop where
  cnt  : m.count = m.live.length + m.dead.length
  ndl  : m.live.Nodup
  ndd  : m.dead.Nodup
  disj : ∀ k, k ∈ m.live → k ∉ m.dead

theorem ginv_init : GInv {} := ⟨rfl, List.nodup_nil, List.nodup_nil, fun _ h => by simp at h⟩

theorem ginv_step (limit : Nat) (m : GMap) (o : GOp) (h : GInv m) : GInv (gstep limit m o).1 := by
  obtain ⟨hc, hl, hd, hdis⟩ := h
  cases o with
  | ingest k =>
    unfold gstep
    by_cases h1 : m.live.contains k = true
    · simp only [h1, if_true]; exact ⟨hc, hl, hd, hdis⟩
    · have hk : k ∉ m.live := by simpa using h1
      simp only [h1, Bool.false_eq_true, if_false]
      by_cases h2 : limit > 0 ∧ m.count ≥ limit
      · simp only [h2, and_self, if_true]; exact ⟨hc, hl, hd, hdis⟩
      · simp only [h2, if_false]
        by_cases h3 : m.dead.contains k = true
        · have hkd : k ∈ m.dead := by simpa using h3
          simp only [h3, if_true]
          refine ⟨?_, List.nodup_cons.mpr ⟨hk, hl⟩, hd.erase k, ?_⟩
          · simp only [List.length_cons, List.length_erase_of_mem hkd]
            have : 0 < m.dead.length := List.length_pos_of_mem hkd
            omega
          · intro x hx
            simp only [List.mem_cons] at hx
            rcases hx with rfl | hx
            · exact fun hmem => (List.Nodup.mem_erase_iff hd).mp hmem |>.1 rfl
            · exact fun hmem => hdis x hx (List.mem_of_mem_erase hmem)
        · have hkd : k ∉ m.dead := by simpa using h3
          simp only [h3, Bool.false_eq_true, if_false]
          refine ⟨by simp only [List.length_cons]; omega, List.nodup_cons.mpr ⟨hk, hl⟩, hd, ?_⟩
          intro x hx
          simp only [List.mem_cons] at hx
          rcases hx with rfl | hx
          · exact hkd
          · exact hdis x hx
  | destroy k =>
    unfold gstep
    by_cases h1 : m.live.contains k = true
    · have hk : k ∈ m.live := by simpa using h1
      simp only [h1, if_true]
      refine ⟨?_, hl.erase k, List.nodup_cons.mpr ⟨hdis k hk, hd⟩, ?_⟩
      · simp only [List.length_cons, List.length_erase_of_mem hk]
        have : 0 < m.live.length := List.length_pos_of_mem hk
        omega
      · intro x hx hmem
        simp only [List.mem_cons] at hmem
        rcases hmem with rfl | hmem
        · exact ((List.Nodup.mem_erase_iff hl).mp hx).1 rfl
        · exact hdis x (List.mem_of_mem_erase hx) hmem
    · simp only [h1, Bool.false_eq_true, if_false]; exact ⟨hc, hl, hd, hdis⟩
  | maintain =>
    unfold gstep
    exact ⟨by simp only [List.length_nil]; omega, hl, List.nodup_nil, fun _ _ h => by simp at h⟩

theorem ginv_run (limit : Nat) (ops : List GOp) (m : GMap) (h : GInv m) : GInv (grun limit ops m) := by
  unfold grun
  induction ops generalizing m with
  | nil => exact h
  | cons o rest ih => exact ih _ (ginv_step limit m o h)

/-- **Admitted under the group limit.**  In every reachable state an alert is
    refused a group exactly when it needs a new group and the map really holds
    `limit` groups (live, or destroyed and not yet collected); re-creating a group
    over its destroyed predecessor never uses up the limit (the counter does not
    leak), and the counter never exceeds the limit. -/
theorem refused_iff_map_full (limit : Nat) (ops : List GOp) (k : String) :
    let m := grun limit ops {}
    ((gstep limit m (.ingest k)).2 = false ↔
      (k ∉ m.live ∧ limit > 0 ∧ m.live.length + m.dead.length ≥ limit)) := by
  intro m
  have hinv := ginv_run limit ops {} ginv_init
  unfold gstep
  by_cases h1 : m.live.contains k = true
  · have : k ∈ m.live := by simpa using h1
    simp [h1, this]
  · have hk : k ∉ m.live := by simpa using h1
    simp only [h1, Bool.false_eq_true, if_false]
    by_cases h2 : limit > 0 ∧ m.count ≥ limit
    · have hge : m.live.length + m.dead.length ≥ limit := by rw [← hinv.cnt]; exact h2.2
      have hgoal : k ∉ m.live ∧ limit > 0 ∧ m.live.length + m.dead.length ≥ limit := ⟨hk, h2.1, hge⟩
      simp only [h2, and_self, if_true, true_iff]
      exact ⟨hgoal.1, trivial, hgoal.2.2⟩
    · simp only [h2, if_false]
      have : ¬ (k ∉ m.live ∧ limit > 0 ∧ m.live.length + m.dead.length ≥ limit) := by
        intro ⟨_, hp, hge⟩; exact h2 ⟨hp, by rw [hinv.cnt]; exact hge⟩
      split <;> simp [this]

theorem count_step_le (limit : Nat) (hl : 0 < limit) (m : GMap) (o : GOp) (h : m.count ≤ limit) :
    (gstep limit m o).1.count ≤ limit := by
  cases o with
  | ingest k =>
    by_cases h1 : k ∈ m.live
    · simp [gstep, h1, h]
    · by_cases h2 : limit ≤ m.count
      · simp [gstep, h1, h2, hl, h]
      · by_cases h3 : k ∈ m.dead
        · simp [gstep, h1, h2, h3, h]
        · simp only [gstep, List.contains_eq_mem, h1, h2, h3, decide_false, Bool.false_eq_true, if_false, and_false, ge_iff_le]
          omega
  | destroy k =>
    by_cases h1 : k ∈ m.live <;> simp [gstep, h1, h]
  | maintain => simp only [gstep]; omega

theorem count_le_limit (limit : Nat) (hl : 0 < limit) (ops : List GOp) :
    (grun limit ops {}).count ≤ limit := by
  suffices h : ∀ (m : GMap), m.count ≤ limit → (grun limit ops m).count ≤ limit from h {} (by simp)
  unfold grun
  induction ops with
  | nil => intro m h; exact h
  | cons o rest ih => intro m h; exact ih _ (count_step_le limit hl m o h)

example : (grun 2 [.ingest "a", .destroy "a", .ingest "a", .destroy "a", .ingest "a", .ingest "b"] {}).live = ["b", "a"] := by decide

end AM.Group
