/-
  C17 — Configuration loading accepts only well-formed configurations, a failed
  reload keeps the running configuration, marshalling never shows a secret.

  Totality on arbitrary bytes ("never panics or hangs") is NOT a theorem here:
  it rests on the harness's malformed-input stream (and that stream found
  panics on the pinned tree, finding F10).
-/
import AM.Model.Config

namespace AM.Config

/-! ### helpers -/

theorem firstSome_none {l : List (Option Err)} (h : firstSome l = none) : ∀ x ∈ l, x = none := by
  induction l with
  | nil => intro x hx; cases hx
  | cons a l ih =>
    cases a with
    | some e => simp [firstSome] at h
    | none =>
      intro x hx
      simp at hx
      rcases hx with hx | hx
      · exact hx
      · exact ih (by simpa [firstSome] using h) x hx

mutual
theorem firstErr_none_all (f : Node → Option Err) (p : Node → Bool) (hp : ∀ n, f n = none → p n = true) :
    ∀ r, firstErr f r = none → Route.all p r = true
  | .mk n cs, h => by
    unfold firstErr at h
    cases hc : firstErr.firstErrs f cs with
    | some e => rw [hc] at h; cases h
    | none =>
      rw [hc] at h
      simp only at h
      unfold Route.all
      rw [hp n h, firstErrs_none_all f p hp cs hc]
      rfl
theorem firstErrs_none_all (f : Node → Option Err) (p : Node → Bool) (hp : ∀ n, f n = none → p n = true) :
    ∀ rs, firstErr.firstErrs f rs = none → Route.all.allList p rs = true
  | [], _ => by unfold Route.all.allList; rfl
  | r :: rs, h => by
    unfold firstErr.firstErrs at h
    cases hr : firstErr f r with
    | some e => rw [hr] at h; cases h
    | none =>
      rw [hr] at h
      simp only at h
      unfold Route.all.allList
      rw [firstErr_none_all f p hp r hr, firstErrs_none_all f p hp rs h]
      rfl
end

theorem receiversErr_none (rs : List RawReceiver) :
    ∀ seen, receiversErr seen rs = none →
      (∀ r ∈ rs, r.name ∉ seen) ∧ hasDup (rs.map (·.name)) = false := by
  induction rs with
  | nil => intro seen _; exact ⟨(fun r hr => by cases hr), rfl⟩
  | cons r rs ih =>
    intro seen h
    unfold receiversErr at h
    by_cases h1 : r.name ∈ seen
    · simp [h1] at h
    · by_cases h2 : r.needsDefault = true
      · simp [h1, h2] at h
      · simp only [List.contains_eq_mem, decide_eq_true_eq, h1, h2, if_false] at h
        obtain ⟨ha, hb⟩ := ih (r.name :: seen) (by simpa using h)
        refine ⟨?_, ?_⟩
        · intro x hx
          simp at hx
          rcases hx with hx | hx
          · rw [hx]; exact h1
          · have := ha x hx
            simp at this
            exact this.2
        · simp only [List.map_cons, hasDup, hb, Bool.or_false]
          cases hc : (rs.map (·.name)).contains r.name with
          | false => rfl
          | true =>
            exfalso
            simp at hc
            obtain ⟨x, hx, hxn⟩ := hc
            have := ha x hx
            simp at this
            exact this.1 hxn

theorem nodeErr_none (n : Node) (h : nodeErr n = none) :
    (!hasDup n.labels && !(!n.labels.isEmpty && n.groupByAll)) = true ∧
    (decide (n.groupInterval ≠ some 0) && decide (n.repeatInterval ≠ some 0)) = true := by
  unfold nodeErr at h
  split at h; · cases h
  split at h; · cases h
  split at h; · cases h
  split at h; · cases h
  split at h; · cases h
  split at h; · cases h
  rename_i _ _ h3 h4 h5 h6
  refine ⟨?_, ?_⟩
  · have h4' : hasDup n.labels = false := by simpa using h4
    rw [h4']
    cases he : n.labels.isEmpty <;> cases hg : n.groupByAll <;> simp_all
  · simp [h5, h6]

theorem receiverErr_ok (names : List String) (n : Node) (h : receiverErr names n = none) :
    (decide (n.receiver = "") || names.contains n.receiver) = true := by
  unfold receiverErr at h
  by_cases he : n.receiver = ""
  · simp [he]
  · rw [if_neg he] at h
    cases hcn : names.contains n.receiver with
    | true => simp
    | false => rw [hcn] at h; simp at h

theorem intervalErr_ok (names : List String) (n : Node) (h : intervalErr names n = none) :
    (n.active ++ n.mute).all names.contains = true := by
  unfold intervalErr at h
  cases ha : (n.active ++ n.mute).all names.contains with
  | true => rfl
  | false => rw [ha] at h; simp at h

theorem root_intervals_ok (n : Node)
    (h3 : (if !n.mute.isEmpty then some Err.rootMute else none) = none)
    (h4 : (if !n.active.isEmpty then some Err.rootActive else none) = none) :
    (n.mute.isEmpty && n.active.isEmpty) = true := by
  cases hm : n.mute.isEmpty <;> cases ha : n.active.isEmpty <;> simp [hm, ha] at h3 h4 ⊢

/-! ### the theorems -/

/-- **validate_ok_wellformed.**  Whatever `validate` accepts satisfies all eight
    clauses of the property: root has a receiver, no matchers, no mute/active
    intervals; every route's receiver and every referenced time interval is
    defined; receiver and interval names are unique; group_by has no duplicate
    label and does not mix '...' with labels; group_interval and
    repeat_interval are non-zero. -/
theorem validate_ok_wellformed (c c' : RawConfig) (h : validate c = .ok c') : WellFormed c' := by
  unfold validate at h
  cases hc : check c with
  | some e => rw [hc] at h; cases h
  | none =>
    rw [hc] at h
    cases h
    unfold check at hc
    cases hr : c.route with
    | none =>
      rw [hr] at hc
      have := firstSome_none hc (some Err.noRoute) (by simp)
      cases this
    | some r =>
      rw [hr] at hc
      simp only at hc
      have all := firstSome_none hc
      have hroute := all (firstErr nodeErr r) (by simp)
      have hrecv := all (receiversErr [] c.receivers) (by simp)
      have h1 := all (if r.node.receiver = "" then some Err.rootNoReceiver else none) (by simp)
      have h2 := all (if r.node.nMatchers > 0 then some Err.rootMatchers else none) (by simp)
      have h3 := all (if !r.node.mute.isEmpty then some Err.rootMute else none) (by simp)
      have h4 := all (if !r.node.active.isEmpty then some Err.rootActive else none) (by simp)
      have h5 := all (firstErr (receiverErr (c.receivers.map (·.name))) r) (by simp)
      have h6 := all (if hasDup (c.muteIntervals ++ c.timeIntervals) then some Err.dupInterval else none) (by simp)
      have h7 := all (firstErr (intervalErr (c.muteIntervals ++ c.timeIntervals)) r) (by simp)
      have k4 := firstErr_none_all (receiverErr (c.receivers.map (·.name)))
        (fun n => decide (n.receiver = "") || (c.receivers.map (·.name)).contains n.receiver)
        (receiverErr_ok _) r h5
      have k5 := firstErr_none_all (intervalErr (c.muteIntervals ++ c.timeIntervals))
        (fun n => (n.active ++ n.mute).all (c.muteIntervals ++ c.timeIntervals).contains)
        (intervalErr_ok _) r h7
      have k7 := firstErr_none_all nodeErr
        (fun n => !hasDup n.labels && !(!n.labels.isEmpty && n.groupByAll))
        (fun n hn => (nodeErr_none n hn).1) r hroute
      have k8 := firstErr_none_all nodeErr
        (fun n => decide (n.groupInterval ≠ some 0) && decide (n.repeatInterval ≠ some 0))
        (fun n hn => (nodeErr_none n hn).2) r hroute
      have k6 := (receiversErr_none c.receivers [] hrecv).2
      have e1 : decide (r.node.receiver ≠ "") = true := by
        by_cases he : r.node.receiver = ""
        · rw [if_pos he] at h1; cases h1
        · exact decide_eq_true he
      have e2 : decide (r.node.nMatchers = 0) = true := by
        by_cases he : r.node.nMatchers > 0
        · rw [if_pos he] at h2; cases h2
        · exact decide_eq_true (by omega)
      have e3 : (r.node.mute.isEmpty && r.node.active.isEmpty) = true := root_intervals_ok _ h3 h4
      have e6 : hasDup (c.muteIntervals ++ c.timeIntervals) = false := by
        cases hd : hasDup (c.muteIntervals ++ c.timeIntervals) with
        | false => rfl
        | true => rw [hd, if_pos rfl] at h6; cases h6
      unfold WellFormed clauses
      rw [hr]
      simp only [k4, k5, k7, k8, k6, e1, e2, e3, e6]
      rfl

/-- the contrapositive reading used by the engine: a violated clause means rejection -/
theorem illformed_rejected (c : RawConfig) (h : ¬ WellFormed c) : ∃ e, validate c = .error e := by
  cases hv : validate c with
  | error e => exact ⟨e, rfl⟩
  | ok c' =>
    exfalso
    have hw := validate_ok_wellformed c c' hv
    unfold validate at hv
    cases hc : check c with
    | some e => rw [hc] at hv; cases hv
    | none => rw [hc] at hv; cases hv; exact h hw

/-- **failed_reload_keeps_config.**  A reload whose load step fails leaves the
    coordinator exactly as it was and calls no subscriber. -/
theorem failed_reload_keeps_config {C E} (s : Coord C) (e : E) (subsOk : Bool) :
    (s.reload (.error e : Except E C) subsOk).1 = s ∧ (s.reload (.error e : Except E C) subsOk).2 = false := by
  simp [Coord.reload]

/-- … in particular when the new file does not validate -/
theorem invalid_reload_keeps_config (s : Coord Config) (raw : RawConfig) (subsOk : Bool)
    (h : ¬ WellFormed raw) : (s.reload (validate raw) subsOk).1 = s := by
  obtain ⟨e, he⟩ := illformed_rejected raw h
  rw [he]; simp [Coord.reload]

/-- a successful load is what the subscribers see and what is in force afterwards -/
theorem successful_reload_applies {C E} (s : Coord C) (c : C) (subsOk : Bool) :
    (s.reload (.ok c : Except E C) subsOk).1.config = some c ∧
    (s.reload (.ok c : Except E C) subsOk).1.applied.head? = some c := by
  simp [Coord.reload]

/-! ### the reloader: a rejected reload leaves the RUNNING configuration in force -/

theorem runSteps_infallible {C} (steps : List Step) (h : steps.all (fun r => !r.fallible) = true)
    (c : C) (k : Option Nat) (s : Live C) : (runSteps steps c k s).2 = true := by
  induction steps generalizing k s with
  | nil => simp [runSteps]
  | cons st rest ih =>
    simp only [List.all_cons, Bool.and_eq_true, Bool.not_eq_true'] at h
    simp only [runSteps, h.1, Bool.false_eq_true, false_and, if_false]
    exact ih h.2 _ _

/-- **The order discipline is sufficient, whatever the steps are**: if no step can
    fail after a step that touched the running instance, a reload that fails —
    at ANY position — leaves the running instance exactly as it was. -/
theorem ordered_failed_reload_keeps_running {C} (steps : List Step) (h : safeOrder steps = true)
    (c : C) (k : Option Nat) (s : Live C) (hf : (runSteps steps c k s).2 = false) :
    (runSteps steps c k s).1 = s := by
  induction steps generalizing k s with
  | nil => simp [runSteps] at hf
  | cons st rest ih =>
    unfold runSteps at hf ⊢
    by_cases hfail : st.fallible ∧ k = some 0
    · simp [hfail]
    · simp only [hfail, if_false] at hf ⊢
      unfold safeOrder at h
      by_cases he : st.effect = .none
      · simp only [he, if_true] at h
        have := ih h _ _ (by simpa [he, Effect.apply] using hf)
        simpa [he, Effect.apply] using this
      · simp only [he, if_false] at h
        rw [runSteps_infallible rest h] at hf
        cases hf

theorem reloaderSteps_safe : safeOrder reloaderSteps = true := by decide

/-- **failed_reload_keeps_running.**  `Coordinator.Reload` with the reloader of
    app/reloader.go as subscriber: a reload that reports failure — the file does
    not load, or ANY step of the reloader fails — leaves the running dispatcher /
    inhibitor, the configuration served by the API and the helper targets exactly
    as they were. -/
theorem failed_reload_keeps_running {C E} (a : AppState C) (load : Except E C) (failAt : Option Nat)
    (hf : (a.reload reloaderSteps load failAt).2 = false) :
    (a.reload reloaderSteps load failAt).1.live = a.live := by
  unfold AppState.reload at hf ⊢
  cases load with
  | error e => rfl
  | ok c =>
    simp only at hf ⊢
    exact ordered_failed_reload_keeps_running reloaderSteps reloaderSteps_safe c failAt a.live hf

/-- every fallible position does fail when told to (the theorem above is not vacuous) -/
theorem reload_fails_at_every_fallible_step {C} (c : C) (s : Live C) (k : Nat) (hk : k < 3) :
    (runSteps reloaderSteps c (some k) s).2 = false := by
  match k, hk with
  | 0, _ => simp [reloaderSteps, runSteps]
  | 1, _ => simp [reloaderSteps, runSteps]
  | 2, _ => simp [reloaderSteps, runSteps]

/-- a reload in which nothing fails puts the new configuration in force everywhere -/
theorem successful_reload_in_force {C} (c : C) (s : Live C) :
    runSteps reloaderSteps c none s = ({ running := some c, served := some c, aux := some c }, true) := by
  simp [reloaderSteps, runSteps, Effect.apply]

/-- The order matters: the same steps with the tracing step moved behind the
    stop of the old components (a seeded change of the reloader). -/
def tracingAfterStop : List Step :=
  [ ⟨"templates", true, .none⟩, ⟨"receivers", true, .none⟩,
    ⟨"eventrecorder", false, .aux⟩, ⟨"stop-inhibitor", false, .stopOld⟩, ⟨"stop-dispatcher", false, .stopOld⟩,
    ⟨"tracing", true, .aux⟩,
    ⟨"api-update", false, .publishApi⟩, ⟨"start-inhibitor", false, .startNew⟩, ⟨"start-dispatcher", false, .startNew⟩ ]

theorem tracingAfterStop_unsafe : safeOrder tracingAfterStop = false := by decide

/-- … a tracing failure then reports "reload failed" with nothing routing any more,
    while the API keeps serving the old configuration -/
theorem fallible_after_stop_breaks :
    runSteps tracingAfterStop (2 : Nat) (some 5) { running := some 1, served := some 1, aux := some 1 } =
      ({ running := none, served := some 1, aux := some 2 }, false) := by decide

/-! ### secrets -/

mutual
theorem render_subset : ∀ (t : Field) (x : String), x ∈ t.render → x = mask ∨ x ∈ t.plains
  | .leaf name (.plain v), x, h => by
    simp [Field.render, Leaf.render] at h
    right; simp [Field.plains]; exact h
  | .leaf name (.secret v), x, h => by
    simp only [Field.render, Leaf.render] at h
    by_cases hv : v = ""
    · simp [hv] at h
      right; simp [Field.plains, h]
    · simp [hv] at h
      rcases h with h | h
      · right; simp [Field.plains, h]
      · left; exact h
  | .node name fs, x, h => by
    simp only [Field.render, List.mem_cons] at h
    rcases h with h | h
    · right; simp [Field.plains, h]
    · rcases renderList_subset fs x h with h' | h'
      · left; exact h'
      · right; simp [Field.plains, h']
theorem renderList_subset : ∀ (fs : List Field) (x : String), x ∈ Field.render.renderList fs →
    x = mask ∨ x ∈ Field.plains.plainsList fs
  | [], x, h => by simp [Field.render.renderList] at h
  | f :: fs, x, h => by
    simp only [Field.render.renderList, List.mem_append] at h
    rcases h with h | h
    · rcases render_subset f x h with h' | h'
      · left; exact h'
      · right; simp [Field.plains.plainsList, h']
    · rcases renderList_subset fs x h with h' | h'
      · left; exact h'
      · right; simp [Field.plains.plainsList, h']
end

/-- **secret_leaves_masked.**  The marshalled form of any field table contains no
    secret leaf's value — provided the value is not also a key or a plain value
    somewhere (the canaries are unique) and is not the mask text itself. -/
theorem secret_leaves_masked (t : Field) (s : String) (hs : s ∈ t.secrets)
    (hmask : s ≠ mask) (huniq : s ∉ t.plains) : s ∉ t.render := by
  intro h
  have _ := hs
  rcases render_subset t s h with h' | h'
  · exact hmask h'
  · exact huniq h'

/-! ### non-vacuity and the rejecting side -/

def okConfig : RawConfig :=
  { route := some (.mk { receiver := "a", groupBy := some ["x", "y"] }
      [.mk { groupBy := some [], nMatchers := 1, mute := ["night"] } []]),
    receivers := [{ name := "a" }], timeIntervals := ["night"] }

instance (c : RawConfig) : Decidable (WellFormed c) := inferInstanceAs (Decidable (_ = _))

example : check okConfig = none := by decide
example : WellFormed okConfig := by decide
example : check { okConfig with receivers := [{ name := "a" }, { name := "a" }] } = some .dupReceiver := by decide
example : check { okConfig with timeIntervals := [] } = some .undefinedInterval := by decide
example : check ({} : RawConfig) = some .noRoute := by decide

example : secret_leaves_masked
    (.node "slack" [.leaf "api_url" (.secret "CANARY1"), .leaf "channel" (.plain "#a")]) "CANARY1"
    (by simp [Field.secrets, Field.secrets.secretsList]) (by decide)
    (by simp [Field.plains, Field.plains.plainsList]) = fun h => by
      simp [Field.render, Field.render.renderList, Leaf.render, mask] at h := rfl

end AM.Config

namespace AM.Config

/-! ### print → load -/

mutual
theorem printLoad_id : ∀ r : Route, r.all (fun n => n.groupBy ≠ some []) = true → printLoad r = r
  | .mk n cs, h => by
    unfold Route.all at h
    simp only [Bool.and_eq_true] at h
    unfold printLoad
    have hn : printNode n = n := by
      unfold printNode
      have : n.groupBy ≠ some [] := by simpa using h.1
      simp [this]
    rw [hn, printLoadList_id cs h.2]
theorem printLoadList_id : ∀ rs : List Route, Route.all.allList (fun n => n.groupBy ≠ some []) rs = true →
    printLoad.printLoadList rs = rs
  | [], _ => by unfold printLoad.printLoadList; rfl
  | r :: rs, h => by
    unfold Route.all.allList at h
    simp only [Bool.and_eq_true] at h
    unfold printLoad.printLoadList
    rw [printLoad_id r h.1, printLoadList_id rs h.2]
end

/-- **print_load_stable_partial.**  The routing tree survives `Config.String()` followed
    by `Load` — provided no route carries an explicit empty `group_by` (finding F8). -/
theorem print_load_stable_partial (r : Route) (h : r.all (fun n => n.groupBy ≠ some []) = true) :
    printLoad r = r := printLoad_id r h

/-- **The full-strength statement is false of the code as it is (F8):** a child that
    overrides its parent's grouping with `group_by: []` reads back without the override. -/
theorem print_load_loses_empty_group_by :
    (printLoad (.mk { receiver := "a", groupBy := some ["alertname", "cluster"] }
        [.mk { nMatchers := 1, groupBy := some [] } []])).children.map (·.node.groupBy) = [none] := by
  decide

end AM.Config

namespace AM.Config

/-- F13 repaired: every expression a loaded configuration can hold (compiled, from a text that compiles) prints to a
    scalar that loads back to itself — the empty expression included. -/
theorem regexp_print_load (compiles : String → Bool) (s : String) (h : compiles s = true) :
    Rx.load compiles (Rx.print ⟨true, s⟩) = some ⟨true, s⟩ := by
  simp [Rx.print, Rx.load, h]

/-- whatever `load` accepts is such an expression: the hypothesis of `regexp_print_load` is met by every loaded value -/
theorem regexp_load_compiled (compiles : String → Bool) (y : Scalar) (r : Rx) (h : Rx.load compiles y = some r) :
    r.compiled = true ∧ compiles r.original = true := by
  cases y with
  | null => simp [Rx.load] at h
  | str s =>
    simp only [Rx.load] at h
    split at h
    · cases h; simp_all
    · cases h

/-- the pinned printer: the empty expression loads (`match_re: {a: ''}`), and its printed form is refused. -/
theorem regexp_print_load_old_fails (compiles : String → Bool) (h : compiles "" = true) :
    Rx.load compiles (.str "") = some ⟨true, ""⟩ ∧ Rx.load compiles (Rx.printOld ⟨true, ""⟩) = none := by
  simp [Rx.printOld, Rx.load, h]

/-- the two printers agree on every non-empty expression: the repair changes nothing else -/
theorem regexp_print_old_agrees (r : Rx) (h : r.original ≠ "") : Rx.print r = Rx.printOld r := by
  simp [Rx.print, Rx.printOld, h]

example : Rx.load (fun _ => true) (Rx.print ⟨true, ""⟩) = some ⟨true, ""⟩ := by decide

end AM.Config

namespace AM.Config

/-- F14 repaired: whatever the decoded list holds, the loaded receiver can be built (no entry is left `null`) -/
theorem apply_total_after_load (dflt : Nat) (es : List Entry) : ∃ l, build (fillNulls dflt es) = some l := by
  induction es with
  | nil => exact ⟨[], rfl⟩
  | cons e es ih =>
    obtain ⟨l, hl⟩ := ih
    refine ⟨e.getD dflt :: l, ?_⟩
    simp only [build, fillNulls, List.map_cons, List.mapM_cons] at hl ⊢
    simp [hl]

/-- … and entries that were given are kept as they are -/
theorem fillNulls_keeps_given (dflt : Nat) (es : List Entry) (h : ∀ e ∈ es, e ≠ none) : fillNulls dflt es = es := by
  induction es with
  | nil => rfl
  | cons e es ih =>
    have he : e ≠ none := h e (by simp)
    have := ih (fun x hx => h x (by simp [hx]))
    cases e with
    | none => exact absurd rfl he
    | some v => simp only [fillNulls, List.map_cons, Option.getD_some] at this ⊢; rw [this]

/-- the pinned loader: a `null` entry survives loading and building the receiver dereferences it -/
theorem null_entry_kills_apply_old (dflt : Nat) : build (fillNullsOld dflt [none]) = none := by
  simp [build, fillNullsOld]

example : build (fillNulls 7 [none, some 3]) = some [7, 3] := by decide

end AM.Config
