/-
  C18 — configured limits hold and never hurt what was already admitted.
  Part 1 (per-alert-name limit) is in `AM.Props.C18Bucket`; here: the silence
  limits of `Silences.Set` and the GET concurrency limiter.
-/
import AM.Props.C18Bucket
import AM.Model.SilLimits
import AM.Model.Sem

namespace AM.SilLimits
open AM AM.AList

theorem merge_length_le (cfg : Cfg) (st : State) (now : Int) (id : String) (s : Sil) :
    (merge cfg st now id s).length ≤ st.length + 1 := by
  unfold merge
  by_cases h : s.ends + cfg.retention < now
  · simp [h]
  · simp only [h, if_false]
    cases hl : lookup st id with
    | none => simp [length_put, hl]
    | some p =>
      by_cases hu : p.updated < s.updated
      · simp [hu, length_put, hl]
      · simp [hu]

theorem merge_length_present (cfg : Cfg) (st : State) (now : Int) (id : String) (s : Sil)
    (h : lookup st id ≠ none) : (merge cfg st now id s).length = st.length := by
  unfold merge
  by_cases hx : s.ends + cfg.retention < now
  · simp [hx]
  · simp only [hx, if_false]
    cases hl : lookup st id with
    | none => exact absurd hl h
    | some p =>
      by_cases hu : p.updated < s.updated
      · simp [hu, length_put, hl]
      · simp [hu]

theorem expireSil_length (cfg : Cfg) (st : State) (now : Int) (id : String) (p : Sil)
    (h : lookup st id = some p) : (expireSil cfg st now id p).length = st.length := by
  have hne : lookup st id ≠ none := by simp [h]
  unfold expireSil
  cases getState p now with
  | expired => rfl
  | active => exact merge_length_present _ _ _ _ _ hne
  | pending => exact merge_length_present _ _ _ _ _ hne

theorem length_filterVals_le (p : String → Sil → Bool) (st : State) : (filterVals p st).length ≤ st.length := by
  induction st with
  | nil => simp [filterVals]
  | cons hd tl ih =>
    obtain ⟨k, v⟩ := hd
    unfold filterVals
    by_cases hp : p k v
    · simp only [hp, if_true, List.length_cons]; omega
    · simp only [hp, List.length_cons]; exact Nat.le_succ_of_le ih

theorem create_reject_same (cfg : Cfg) (st : State) (now : Int) (sil : Sil) (newId : String) (size : Nat)
    (f : State → State) (h : ∀ id, (create cfg st now sil newId size f).2 ≠ .ok id) :
    (create cfg st now sil newId size f).1 = st := by
  unfold create at h ⊢
  by_cases hf : full cfg st
  · simp [hf]
  · by_cases hb : tooBig cfg size
    · simp [hf, hb]
    · simp [hf, hb] at h

theorem create_length (cfg : Cfg) (hmax : 0 < cfg.maxCount) (st : State) (now : Int) (sil : Sil)
    (newId : String) (size : Nat) (f : State → State) (hf : (f st).length = st.length) :
    (create cfg st now sil newId size f).1.length ≤ max st.length cfg.maxCount := by
  unfold create
  by_cases hfull : full cfg st
  · simp only [hfull, if_true]; exact Nat.le_max_left _ _
  · by_cases hb : tooBig cfg size
    · simp only [hfull, hb, if_true]; exact Nat.le_max_left _ _
    · simp only [hfull, hb]
      have h1 := merge_length_le cfg (f st) now newId { sil with starts := if sil.starts < now then now else sil.starts }
      rw [hf] at h1
      have : st.length + 1 ≤ cfg.maxCount := by
        simp only [full, decide_eq_true_eq] at hfull
        by_cases hc : st.length + 1 > cfg.maxCount
        · exact absurd ⟨hmax, hc⟩ hfull
        · omega
      exact Nat.le_trans h1 (Nat.le_trans this (Nat.le_max_right _ _))

theorem create_ok_size (cfg : Cfg) (st : State) (now : Int) (sil : Sil) (newId : String) (size : Nat)
    (f : State → State) (id : String) (h : (create cfg st now sil newId size f).2 = .ok id) :
    tooBig cfg size = false := by
  unfold create at h
  by_cases hf : full cfg st
  · simp [hf] at h
  · by_cases hb : tooBig cfg size
    · simp [hf, hb] at h
    · simpa using hb

/-- **rejected_op_changes_nothing**: whatever the reason of a refusal (count limit, size limit,
    unknown id, invalid times), the stored silences are exactly what they were — in particular the
    silence an edit was aimed at is neither expired nor modified. -/
theorem rejected_op_changes_nothing (cfg : Cfg) (st : State) (now : Int) (r : Req) (newId : String)
    (size : Nat) (h : ∀ id, (set cfg st now r newId size).2 ≠ .ok id) :
    (set cfg st now r newId size).1 = st := by
  unfold set at h ⊢
  by_cases hi : r.ends < starts0 r now
  · simp [hi]
  · simp only [hi, if_false] at h ⊢
    cases hp : lookup st r.id with
    | none =>
      simp only [hp] at h ⊢
      by_cases hid : r.id ≠ ""
      · simp [hid]
      · simp only [hid, if_false] at h ⊢
        exact create_reject_same _ _ _ _ _ _ _ h
    | some p =>
      simp only [hp] at h ⊢
      by_cases hcu : canUpdate p { starts := starts0 r now, ends := r.ends, updated := now, m := r.m } now = true
      · simp only [hcu, if_true] at h ⊢
        by_cases hb : tooBig cfg size
        · simp [hb]
        · simp only [Bool.not_eq_true] at hb
          simp [hb] at h
      · simp only [Bool.not_eq_true] at hcu
        simp only [hcu, Bool.false_eq_true, if_false] at h ⊢
        exact create_reject_same _ _ _ _ _ _ _ h

/-- one `Set` raises the count by at most one, and not at all once the limit is reached -/
theorem set_count_bound (cfg : Cfg) (hmax : 0 < cfg.maxCount) (st : State) (now : Int) (r : Req)
    (newId : String) (size : Nat) :
    (set cfg st now r newId size).1.length ≤ max st.length cfg.maxCount := by
  unfold set
  by_cases hi : r.ends < starts0 r now
  · simp only [hi, if_true]; exact Nat.le_max_left _ _
  · simp only [hi, if_false]
    cases hp : lookup st r.id with
    | none =>
      simp only
      by_cases hid : r.id ≠ ""
      · rw [if_pos hid]; exact Nat.le_max_left _ _
      · rw [if_neg hid]
        exact create_length cfg hmax st now _ newId size id rfl
    | some p =>
      have hne : lookup st r.id ≠ none := by simp [hp]
      simp only
      by_cases hcu : canUpdate p { starts := starts0 r now, ends := r.ends, updated := now, m := r.m } now = true
      · simp only [hcu, if_true]
        by_cases hb : tooBig cfg size
        · simp only [hb, if_true]; exact Nat.le_max_left _ _
        · simp only [Bool.not_eq_true] at hb
          simp only [hb, Bool.false_eq_true, if_false]; rw [merge_length_present _ _ _ _ _ hne]; exact Nat.le_max_left _ _
      · simp only [Bool.not_eq_true] at hcu
        simp only [hcu, Bool.false_eq_true, if_false]
        exact create_length cfg hmax st now _ newId size (fun s => expireSil cfg s now r.id p) (expireSil_length _ _ _ _ _ hp)

inductive Op where
  | set (r : Req) (newId : String) (size : Nat)
  | expire (id : String)
  | gc
  deriving Repr

def step (cfg : Cfg) (st : State) (now : Int) : Op → State
  | .set r newId size => (set cfg st now r newId size).1
  | .expire id => (expire cfg st now id).1
  | .gc => gc cfg st now

def run (cfg : Cfg) (st : State) : List (Int × Op) → State
  | [] => st
  | (t, op) :: rest => run cfg (step cfg st t op) rest

theorem step_count_bound (cfg : Cfg) (hmax : 0 < cfg.maxCount) (st : State) (now : Int) (op : Op) :
    (step cfg st now op).length ≤ max st.length cfg.maxCount := by
  cases op with
  | set r newId size => exact set_count_bound cfg hmax st now r newId size
  | expire id =>
    simp only [step, expire]
    cases h : lookup st id with
    | none => exact Nat.le_max_left _ _
    | some p => simp only; rw [expireSil_length _ _ _ _ _ h]; exact Nat.le_max_left _ _
  | gc => exact Nat.le_trans (length_filterVals_le _ _) (Nat.le_max_left _ _)

/-- **count_le_max**: with a count limit configured, over every history of API creates, edits,
    expirations and garbage collections at arbitrary instants, the number of stored silences
    (expired ones included) never exceeds the limit — provided nothing else (gossip, snapshot)
    put more there to begin with. -/
theorem count_le_max (cfg : Cfg) (hmax : 0 < cfg.maxCount) (st : State) (h0 : st.length ≤ cfg.maxCount)
    (hist : List (Int × Op)) : (run cfg st hist).length ≤ cfg.maxCount := by
  induction hist generalizing st with
  | nil => exact h0
  | cons ev rest ih =>
    obtain ⟨t, op⟩ := ev
    apply ih
    have := step_count_bound cfg hmax st t op
    have h2 : max st.length cfg.maxCount = cfg.maxCount := Nat.max_eq_right h0
    omega

/-- **size_le_max**: a create or edit that is accepted had an encoded size within the limit. -/
theorem size_le_max (cfg : Cfg) (hmax : 0 < cfg.maxSize) (st : State) (now : Int) (r : Req)
    (newId : String) (size : Nat) (id : String) (h : (set cfg st now r newId size).2 = .ok id) :
    size ≤ cfg.maxSize := by
  have hb : tooBig cfg size = false := by
    unfold set at h
    by_cases hi : r.ends < starts0 r now
    · simp [hi] at h
    · simp only [hi, if_false] at h
      cases hp : lookup st r.id with
      | none =>
        simp only [hp] at h
        by_cases hid : r.id ≠ ""
        · simp [hid] at h
        · simp only [hid, if_false] at h
          exact create_ok_size _ _ _ _ _ _ _ _ h
      | some p =>
        simp only [hp] at h
        by_cases hcu : canUpdate p { starts := starts0 r now, ends := r.ends, updated := now, m := r.m } now = true
        · simp only [hcu, if_true] at h
          by_cases hb : tooBig cfg size
          · simp [hb] at h
          · simpa using hb
        · simp only [Bool.not_eq_true] at hcu
          simp only [hcu, Bool.false_eq_true, if_false] at h
          exact create_ok_size _ _ _ _ _ _ _ _ h
  simp only [tooBig, decide_eq_false_iff_not] at hb
  by_cases hc : size > cfg.maxSize
  · exact absurd ⟨hmax, hc⟩ hb
  · omega

theorem create_refusals (cfg : Cfg) (st : State) (now : Int) (sil : Sil) (newId : String) (size : Nat)
    (f : State → State) :
    ((create cfg st now sil newId size f).2 = .limitSize → tooBig cfg size = true) ∧
    ((create cfg st now sil newId size f).2 = .limitCount → full cfg st = true) := by
  unfold create
  by_cases hf : full cfg st
  · simp [hf]
  · by_cases hb : tooBig cfg size
    · simp [hf, hb]
    · simp [hf, hb]

/-- **refusals_justified** (no spurious refusal): a refusal by the size limit really exceeded it; a
    refusal by the count limit really found `maxCount` silences stored. -/
theorem refusals_justified (cfg : Cfg) (st : State) (now : Int) (r : Req) (newId : String) (size : Nat) :
    ((set cfg st now r newId size).2 = .limitSize → 0 < cfg.maxSize ∧ size > cfg.maxSize) ∧
    ((set cfg st now r newId size).2 = .limitCount → 0 < cfg.maxCount ∧ st.length + 1 > cfg.maxCount) := by
  have key : ((set cfg st now r newId size).2 = .limitSize → tooBig cfg size = true) ∧
      ((set cfg st now r newId size).2 = .limitCount → full cfg st = true) := by
    unfold set
    by_cases hi : r.ends < starts0 r now
    · simp [hi]
    · simp only [hi, if_false]
      cases hp : lookup st r.id with
      | none =>
        simp only
        by_cases hid : r.id ≠ ""
        · rw [if_pos hid]; simp
        · rw [if_neg hid]; exact create_refusals _ _ _ _ _ _ _
      | some p =>
        simp only
        by_cases hcu : canUpdate p { starts := starts0 r now, ends := r.ends, updated := now, m := r.m } now = true
        · simp only [hcu, if_true]
          by_cases hb : tooBig cfg size
          · simp [hb]
          · simp [hb]
        · simp only [Bool.not_eq_true] at hcu
          simp only [hcu, Bool.false_eq_true, if_false]
          exact create_refusals _ _ _ _ _ _ _
  refine ⟨fun h => ?_, fun h => ?_⟩
  · have := key.1 h; simpa [tooBig] using this
  · have := key.2 h; simpa [full] using this

/-- **accepted_is_stored** (nothing is dropped silently): the version handed to the store by an
    accepted `Set` is the stored one, unless it is already past its retention. -/
theorem accepted_is_stored (cfg : Cfg) (st : State) (now : Int) (id : String) (s : Sil)
    (hlive : ¬ s.ends + cfg.retention < now) (hnew : ∀ p, lookup st id = some p → p.updated < s.updated) :
    lookup (merge cfg st now id s) id = some s := by
  unfold merge
  simp only [hlive, if_false]
  cases hp : lookup st id with
  | none => simp
  | some p => simp [hnew p hp]

/-! non-vacuity: the limit is reachable and the refusal branches are inhabited -/
example : (set { maxCount := 1, maxSize := 100, retention := 0 } [("a", { starts := 0, ends := 10, updated := 0, m := 1 })] 5
    { id := "", starts := -1, ends := 20, m := 2 } "b" 50).2 = .limitCount := by decide
example : (set { maxCount := 2, maxSize := 100, retention := 0 } [("a", { starts := 0, ends := 10, updated := 0, m := 1 })] 5
    { id := "a", starts := 0, ends := 20, m := 1 } "b" 101).2 = .limitSize := by decide
example : (set { maxCount := 2, maxSize := 100, retention := 0 } [("a", { starts := 0, ends := 10, updated := 0, m := 1 })] 5
    { id := "a", starts := 0, ends := 20, m := 2 } "b" 50).2 = .ok "b" := by decide

end AM.SilLimits

namespace AM.Sem

theorem arrive_inflight_le (s : St) (h : s.inflight ≤ s.cap) : (arrive s).1.inflight ≤ (arrive s).1.cap := by
  unfold arrive
  by_cases hl : s.inflight < s.cap
  · simp [hl]; omega
  · simp [hl]; exact h

theorem step_cap (s : St) (e : Ev) : (step s e).cap = s.cap := by
  cases e <;> simp [step, arrive]
  by_cases hl : s.inflight < s.cap <;> simp [hl]

theorem step_inv (s : St) (e : Ev) (h : s.inflight ≤ s.cap) : (step s e).inflight ≤ (step s e).cap := by
  cases e with
  | getArrive => exact arrive_inflight_le s h
  | getDone => simp [step]; omega
  | postArrive => simpa [step] using h
  | postDone => simpa [step] using h

/-- **inflight_le_cap**: over every interleaving of arrivals and completions of GETs and POSTs,
    the number of GET handlers running at once never exceeds the configured concurrency. -/
theorem inflight_le_cap (cap : Nat) (evs : List Ev) :
    (run { cap := cap } evs).inflight ≤ cap := by
  suffices ∀ (s : St), s.inflight ≤ s.cap → (run s evs).inflight ≤ s.cap from this { cap := cap } (Nat.zero_le _)
  induction evs with
  | nil => intro s h; exact h
  | cons e es ih =>
    intro s h
    have := ih (step s e) (step_inv s e h)
    rw [step_cap] at this
    exact this

/-- **refused_gets_503_and_counter**: a GET is refused exactly when `cap` GETs are in flight; a
    refusal answers 503, bumps the limit-exceeded counter by one and takes no slot; an admitted
    GET takes one slot and leaves the counter alone. -/
theorem refused_gets_503_and_counter (s : St) :
    ((arrive s).2 = some 503 ↔ s.cap ≤ s.inflight) ∧
    ((arrive s).2 = some 503 → (arrive s).1.refused = s.refused + 1 ∧ (arrive s).1.inflight = s.inflight) ∧
    ((arrive s).2 = none → (arrive s).1.refused = s.refused ∧ (arrive s).1.inflight = s.inflight + 1) := by
  unfold arrive
  by_cases hl : s.inflight < s.cap
  · simp [hl]
  · simp [hl]; omega

/-- **posts_unlimited**: a POST is never refused by the limiter and neither takes a slot nor
    touches the counter, however many GETs are in flight. -/
theorem posts_unlimited (s : St) :
    (step s .postArrive).inflight = s.inflight ∧ (step s .postArrive).refused = s.refused ∧
    (step s .postArrive).posts = s.posts + 1 := by
  simp [step]

example : (run { cap := 2 } [.getArrive, .getArrive, .getArrive, .postArrive]) =
    { cap := 2, inflight := 2, refused := 1, posts := 1 } := by decide

end AM.Sem
