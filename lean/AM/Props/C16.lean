/-
  C16 — Matchers: parse/print round-trip, parser agreement, exact match semantics.

  Property theorems only; all are unbounded (any strings, any lists, any label
  sets).  Parameters: `ip` = `strconv.IsPrint` on code points (any table that
  does not call the line feed printable), `compiles` = "`regexp.Compile` accepts
  `^(?:v)$`", `fm` = "regular expression v matches the whole of s".

  The printer `print` is `Matcher.String` WITH fixes/F7.diff (an empty name is
  quoted).  For the pinned tree (`printPinned`) the round trip is false:
  `empty_name_counterexample`; with a non-empty name the two printers coincide
  (`printPinned_eq_print`), so every theorem below also holds of the pinned
  printer under the hypothesis `m.name ≠ []`.
-/
import AM.Model.MatcherRegex
import AM.Lemmas.MatcherClassicRT
import AM.Lemmas.MatcherUTF8RT
import AM.Lemmas.MatcherTotal
import AM.Lemmas.MatcherFallbackRT
import AM.Lemmas.MatcherListRT
import AM.Lemmas.MatcherClassicListRT
import AM.Lemmas.MatcherFallbackListRT

namespace AM.Mt
open AM

/-- What the round-trip theorems assume of a matcher: name and value are valid
    UTF-8 and a regex value compiles (it was built by `NewMatcher`). -/
structure WellFormed (compiles : Str → Bool) (m : Matcher) : Prop where
  name : Valid m.name
  value : Valid m.value
  re : m.op.isRegex = true → compiles m.value = true

/-! ### round trips, one matcher -/

/-- UTF-8 mode: `parse.Matcher(m.String()) = m`, for every well-formed matcher. -/
theorem utf8_roundtrip (ip : Nat → Bool) (hp : ip 10 = false) (compiles : Str → Bool) (m : Matcher)
    (h : WellFormed compiles m) : utf8Matcher compiles (print ip m) = .ok m := by
  obtain ⟨op, name, value⟩ := m
  obtain ⟨n, rfl⟩ := valid_exists_chars h.name
  obtain ⟨v, rfl⟩ := valid_exists_chars h.value
  exact utf8Matcher_single compiles _ _ (readsAs_print ip hp compiles op n v h.re)

/-- Classic mode: `labels.ParseMatcher(m.String()) = m` when the name is a classic label name. -/
theorem classic_roundtrip (ip : Nat → Bool) (compiles : Str → Bool) (m : Matcher)
    (h : WellFormed compiles m) (hn : classicName m.name = true) :
    classicMatcher compiles (print ip m) = .ok m := by
  obtain ⟨op, name, value⟩ := m
  obtain ⟨v, rfl⟩ := valid_exists_chars h.value
  have hres : hasReserved name = false := classicName_no_reserved hn
  have hne : name.isEmpty = false := by
    obtain ⟨r, rest, hs, _, _⟩ := classicName_spec hn
    have hs' : name = r :: rest := hs
    simp [hs']
  simp only [print, hres, hne, Bool.or_self, Bool.false_eq_true, if_false]
  exact classicMatcher_printed compiles op name v hn h.re

/-- UTF-8 mode, lists: `parse.Matchers(ms.String()) = ms`, any length (including `{}`). -/
theorem utf8_roundtrip_list (ip : Nat → Bool) (hp : ip 10 = false) (compiles : Str → Bool) (ms : List Matcher)
    (h : ∀ m ∈ ms, WellFormed compiles m) : utf8Matchers compiles (printList ip ms) = .ok ms := by
  apply utf8Matchers_braced
  intro m hm
  have hw := h m hm
  obtain ⟨op, name, value⟩ := m
  obtain ⟨n, rfl⟩ := valid_exists_chars hw.name
  obtain ⟨v, rfl⟩ := valid_exists_chars hw.value
  exact readsAs_print ip hp compiles op n v hw.re

/-- Classic mode, lists: `labels.ParseMatchers(ms.String()) = ms` when every name is a
    classic label name (the comma splitter cuts exactly between the matchers). -/
theorem classic_roundtrip_list (ip : Nat → Bool) (compiles : Str → Bool) (ms : List Matcher)
    (h : ∀ m ∈ ms, WellFormed compiles m) (hn : ∀ m ∈ ms, classicName m.name = true) :
    classicMatchers compiles (printList ip ms) = .ok ms := by
  apply classicMatchers_printList ip compiles ms hn
  · intro m hm
    exact valid_exists_chars (h m hm).value
  · intro m hm
    exact classic_roundtrip ip compiles m (h m hm) (hn m hm)

/-- the pinned printer differs from the repaired one only for the empty name -/
theorem printPinned_eq_print (ip : Nat → Bool) (m : Matcher) (h : m.name ≠ []) :
    printPinned ip m = print ip m := by
  have : m.name.isEmpty = false := by
    cases hn : m.name with
    | nil => exact absurd hn h
    | cons _ _ => rfl
  simp [printPinned, print, this]

/-- F7: on the pinned tree a matcher with an empty name prints as `="x"`, which
    the UTF-8 parser (hence every mode) rejects — while `{""="x"}` parses to
    exactly that matcher. -/
theorem empty_name_counterexample :
    utf8Matcher (fun _ => true) (printPinned (fun _ => false) ⟨.eq, [], [.ch 'x']⟩) = .err .syntax ∧
    ofExcept (classicMatcher (fun _ => true) (printPinned (fun _ => false) ⟨.eq, [], [.ch 'x']⟩)) = .err .syntax ∧
    utf8Matcher (fun _ => true) [.ch '"', .ch '"', .ch '=', .ch '"', .ch 'x', .ch '"'] = .ok ⟨.eq, [], [.ch 'x']⟩ := by
  decide

/-! ### fallback mode -/

/-- `FallbackMatchersParser`, completely: -/
theorem fallback_spec_list (compiles : Str → Bool) (s : Str) :
    fallbackMatchers compiles s =
      match utf8Matchers compiles s, classicMatchers compiles s with
      | .panic, _ => .panic
      | .fuel, _ => .fuel
      | .err _, .error e => .err e
      | .err _, .ok c => .ok c
      | .ok n, .ok c => if n = c then .ok n else .ok c
      | .ok n, .error _ => .ok n := by
  unfold fallbackMatchers fallbackChoose
  cases utf8Matchers compiles s <;> cases classicMatchers compiles s <;> simp

/-- An input accepted by both parsers yields the classic result whenever they
    differ, and otherwise the common result (list parser). -/
theorem fallback_prefers_classic_list (compiles : Str → Bool) (s : Str) (n c : List Matcher)
    (hu : utf8Matchers compiles s = .ok n) (hc : classicMatchers compiles s = .ok c) :
    fallbackMatchers compiles s = .ok c ∧ (n = c → fallbackMatchers compiles s = .ok n) := by
  rw [fallback_spec_list, hu, hc]
  by_cases h : n = c <;> simp [h]

/-- An input accepted only by the classic parser is still accepted (list parser). -/
theorem classic_only_still_accepted_list (compiles : Str → Bool) (s : Str) (e : Err) (c : List Matcher)
    (hu : utf8Matchers compiles s = .err e) (hc : classicMatchers compiles s = .ok c) :
    fallbackMatchers compiles s = .ok c := by
  rw [fallback_spec_list, hu, hc]

/-- `FallbackMatcherParser`, completely (including its brace guard): -/
theorem fallback_spec (compiles : Str → Bool) (s : Str) :
    fallbackMatcher compiles s =
      if hasBracePrefix s || hasBraceSuffix s then .err .brace else
      match utf8Matcher compiles s, classicMatcher compiles s with
      | .panic, _ => .panic
      | .fuel, _ => .fuel
      | .err _, .error e => .err e
      | .err _, .ok c => .ok c
      | .ok n, .ok c => if n = c then .ok n else .ok c
      | .ok n, .error _ => .ok n := by
  unfold fallbackMatcher fallbackChoose
  split
  · rfl
  · cases utf8Matcher compiles s <;> cases classicMatcher compiles s <;> simp

/-- single matcher: both accept ⇒ the classic result (the common one when they agree),
    for input without a leading '{' / trailing '}' -/
theorem fallback_prefers_classic (compiles : Str → Bool) (s : Str) (n c : Matcher)
    (hb : (hasBracePrefix s || hasBraceSuffix s) = false)
    (hu : utf8Matcher compiles s = .ok n) (hc : classicMatcher compiles s = .ok c) :
    fallbackMatcher compiles s = .ok c ∧ (n = c → fallbackMatcher compiles s = .ok n) := by
  rw [fallback_spec, hb, hu, hc]
  by_cases h : n = c <;> simp [h]

/-- single matcher: accepted only by the classic parser ⇒ still accepted,
    for input without a leading '{' / trailing '}' -/
theorem classic_only_still_accepted (compiles : Str → Bool) (s : Str) (e : Err) (c : Matcher)
    (hb : (hasBracePrefix s || hasBraceSuffix s) = false)
    (hu : utf8Matcher compiles s = .err e) (hc : classicMatcher compiles s = .ok c) :
    fallbackMatcher compiles s = .ok c := by
  rw [fallback_spec, hb, hu, hc]
  simp

/-- Fallback mode: `compat.Matcher(m.String()) = m`, for every well-formed matcher
    (the classic parser agrees when the name is classic and fails otherwise). -/
theorem fallback_roundtrip (ip : Nat → Bool) (hp : ip 10 = false) (compiles : Str → Bool) (m : Matcher)
    (h : WellFormed compiles m) : fallbackMatcher compiles (print ip m) = .ok m := by
  rw [fallback_spec, print_no_brace_guard, utf8_roundtrip ip hp compiles m h]
  by_cases hn : classicName m.name = true
  · rw [classic_roundtrip ip compiles m h hn]; simp
  · rw [classicMatcher_print_nonclassic ip compiles m (by simpa using hn)]; simp

/-- Fallback mode, lists: `compat.Matchers(ms.String()) = ms` for every list of
    well-formed matchers: the classic parser reads the same list back when all
    names are classic and rejects the text otherwise. -/
theorem fallback_roundtrip_list (ip : Nat → Bool) (hp : ip 10 = false) (compiles : Str → Bool) (ms : List Matcher)
    (h : ∀ m ∈ ms, WellFormed compiles m) : fallbackMatchers compiles (printList ip ms) = .ok ms := by
  rw [fallback_spec_list, utf8_roundtrip_list ip hp compiles ms h]
  by_cases hn : ∀ m ∈ ms, classicName m.name = true
  · rw [classic_roundtrip_list ip compiles ms h hn]; simp
  · have hbad : ∃ m ∈ ms, classicName m.name = false := by
      apply Classical.byContradiction
      intro hno
      apply hn
      intro m hm
      cases hcn : classicName m.name
      · exact absurd ⟨m, hm, hcn⟩ hno
      · rfl
    rw [classicMatchers_printList_nonclassic ip compiles ms ?_ ?_ hbad]
    · intro m hm
      obtain ⟨n, hn'⟩ := valid_exists_chars (h m hm).name
      obtain ⟨v, hv'⟩ := valid_exists_chars (h m hm).value
      exact ⟨n, v, hn', hv'⟩
    · intro m hm hcn
      exact classic_roundtrip ip compiles m (h m hm) hcn

/-- The brace guard is real: `foo=bar}` is a classic matcher (value `bar}`), the
    UTF-8 parser rejects it, and `compat.Matcher` in fallback mode rejects it too
    — the single-matcher form of "classic-only input is still accepted" needs
    the hypothesis above. -/
theorem brace_guard_rejects_classic_input :
    ofExcept (classicMatcher (fun _ => true) [.ch 'f', .ch '=', .ch 'b', .ch '}']) = .ok ⟨.eq, [.ch 'f'], [.ch 'b', .ch '}']⟩ ∧
    utf8Matcher (fun _ => true) [.ch 'f', .ch '=', .ch 'b', .ch '}'] = .err .syntax ∧
    fallbackMatcher (fun _ => true) [.ch 'f', .ch '=', .ch 'b', .ch '}'] = .err .brace := by
  decide

/-! ### totality -/

theorem fallbackChoose_total {α : Type} [DecidableEq α] (n : Outcome α) (c : Except Err α)
    (h : n ≠ .panic ∧ n ≠ .fuel) : fallbackChoose n c ≠ .panic ∧ fallbackChoose n c ≠ .fuel := by
  unfold fallbackChoose
  cases n with
  | panic => exact absurd rfl h.1
  | fuel => exact absurd rfl h.2
  | err e => cases c <;> simp
  | ok nm =>
    cases c with
    | error e => simp
    | ok cm => by_cases hx : nm = cm <;> simp [hx]

/-- No input makes a parser panic or loop.  The classic parsers (`classicMatcher`,
    `classicMatchers : Str → Except Err _`) are structural recursions, total by
    construction; the UTF-8 automaton never reaches one of the `panic(...)` sites of
    parse.go and always stops within its fuel `3·|input| + 6`; the fallback
    parsers inherit both. -/
theorem parsers_total (compiles : Str → Bool) (s : Str) :
    (utf8Matchers compiles s ≠ .panic ∧ utf8Matchers compiles s ≠ .fuel) ∧
    (utf8Matcher compiles s ≠ .panic ∧ utf8Matcher compiles s ≠ .fuel) ∧
    (fallbackMatchers compiles s ≠ .panic ∧ fallbackMatchers compiles s ≠ .fuel) ∧
    (fallbackMatcher compiles s ≠ .panic ∧ fallbackMatcher compiles s ≠ .fuel) := by
  refine ⟨utf8Matchers_total compiles s, utf8Matcher_total compiles s, ?_, ?_⟩
  · exact fallbackChoose_total _ _ (utf8Matchers_total compiles s)
  · unfold fallbackMatcher
    split
    · simp
    · exact fallbackChoose_total _ _ (utf8Matcher_total compiles s)

/-! ### match semantics -/

theorem matchesValue_spec (fm : Str → Str → Bool) (m : Matcher) (s : Str) :
    m.matchesValue fm s = true ↔
      match m.op with
      | .eq => s = m.value
      | .ne => s ≠ m.value
      | .re => fm m.value s = true
      | .nre => fm m.value s = false := by
  unfold Matcher.matchesValue
  cases m.op <;> simp

/-- a label that is not in the set reads as the empty string -/
theorem get_missing (ls : LabelSet) (n : Str) (h : ∀ kv ∈ ls, kv.1 ≠ n) : ls.get n = [] := by
  induction ls with
  | nil => rfl
  | cons kv rest ih =>
    obtain ⟨k, v⟩ := kv
    have hk : k ≠ n := h (k, v) (by simp)
    simp only [LabelSet.get, hk, if_false]
    exact ih (fun kv hkv => h kv (by simp [hkv]))

theorem get_present (ls : LabelSet) (n v : Str) : LabelSet.get ((n, v) :: ls) n = v := by
  simp [LabelSet.get]

/-- `Matchers.Matches`: a list matches a label set iff every matcher holds for
    the value of its label (missing = ""). -/
theorem matches_spec (fm : Str → Str → Bool) (ms : List Matcher) (ls : LabelSet) :
    matchesAll fm ms ls = true ↔ ∀ m ∈ ms, m.matchesValue fm (ls.get m.name) = true := by
  induction ms with
  | nil => simp [matchesAll]
  | cons m rest ih =>
    unfold matchesAll
    by_cases h : m.matchesValue fm (ls.get m.name) = true
    · simp [h, ih]
    · simp [h]

/-- `MatcherSet.Matches`: OR over the lists. -/
theorem matcherset_spec (fm : Str → Str → Bool) (sets : List (List Matcher)) (ls : LabelSet) :
    matchesAny fm sets ls = true ↔ ∃ ms ∈ sets, matchesAll fm ms ls = true := by
  induction sets with
  | nil => simp [matchesAny]
  | cons ms rest ih =>
    unfold matchesAny
    by_cases h : matchesAll fm ms ls = true
    · simp [h]
    · simp [h, ih]

/-! ### regular expressions: what "fully anchored" means

`labels.NewMatcher` compiles `"^(?:" + v + ")$"` and `Matcher.Matches` asks
`MatchString`, an unanchored search.  `Re.wrap p` is that wrapping, `Search` the
search, `FullMatch p t` = `Den p [] t []` the meaning the property gives to
`=~`: the pattern matches the whole value.  `matchRe` is the executable matcher
of the correspondence engine (derivatives with start/end flags). -/

theorem den_none {pre s post : Str} : ¬ Den .none pre s post := by
  intro h; cases h

theorem den_eps_iff {pre s post : Str} : Den .eps pre s post ↔ s = [] :=
  ⟨fun h => by cases h; assumption, fun h => .eps h⟩

theorem den_seq_iff {a b : Re} {pre s post : Str} :
    Den (.seq a b) pre s post ↔
      ∃ s1 s2, s = s1 ++ s2 ∧ Den a pre s1 (s2 ++ post) ∧ Den b (pre ++ s1) s2 post :=
  ⟨fun h => by cases h with | seq s1 s2 hs h1 h2 => exact ⟨s1, s2, hs, h1, h2⟩,
   fun ⟨s1, s2, hs, h1, h2⟩ => .seq s1 s2 hs h1 h2⟩

theorem den_alt_iff {a b : Re} {pre s post : Str} :
    Den (.alt a b) pre s post ↔ Den a pre s post ∨ Den b pre s post :=
  ⟨fun h => by cases h with | altL h => exact .inl h | altR h => exact .inr h,
   fun h => h.elim .altL .altR⟩

theorem den_mkSeq (a b : Re) (pre s post : Str) :
    Den (mkSeq a b) pre s post ↔ Den (.seq a b) pre s post := by
  unfold mkSeq
  split
  · exact ⟨fun h => absurd h den_none, fun h => by
      obtain ⟨_, _, _, h1, _⟩ := den_seq_iff.mp h; exact absurd h1 den_none⟩
  · exact ⟨fun h => absurd h den_none, fun h => by
      obtain ⟨_, _, _, _, h2⟩ := den_seq_iff.mp h; exact absurd h2 den_none⟩
  · rw [den_seq_iff]
    constructor
    · intro h; exact ⟨[], s, by simp, .eps rfl, by simpa using h⟩
    · rintro ⟨s1, s2, hs, h1, h2⟩
      have := den_eps_iff.mp h1; subst this
      simp at hs h2; subst hs; exact h2
  · rw [den_seq_iff]
    constructor
    · intro h; exact ⟨s, [], by simp, by simpa using h, .eps rfl⟩
    · rintro ⟨s1, s2, hs, h1, h2⟩
      have := den_eps_iff.mp h2; subst this
      simp at hs h1; subst hs; exact h1
  · exact Iff.rfl

theorem den_mkAlt (a b : Re) (pre s post : Str) :
    Den (mkAlt a b) pre s post ↔ Den (.alt a b) pre s post := by
  unfold mkAlt
  split
  · rw [den_alt_iff]; exact ⟨.inr, fun h => h.elim (fun h => absurd h den_none) id⟩
  · rw [den_alt_iff]; exact ⟨.inl, fun h => h.elim id (fun h => absurd h den_none)⟩
  · exact Iff.rfl

/-- `nullable` decides "matches the empty piece here". -/
theorem nullable_iff (re : Re) (pre post : Str) :
    nullable pre.isEmpty post.isEmpty re = true ↔ Den re pre [] post := by
  induction re with
  | none => exact ⟨fun h => by simp [nullable] at h, fun h => absurd h den_none⟩
  | eps => exact ⟨fun _ => .eps rfl, fun _ => rfl⟩
  | chr n => exact ⟨fun h => by simp [nullable] at h, fun h => by cases h with | chr r hs _ => cases hs⟩
  | any => exact ⟨fun h => by simp [nullable] at h, fun h => by cases h with | any r hs _ => cases hs⟩
  | bol =>
    constructor
    · intro h; exact .bol rfl (by simpa [nullable] using h)
    · intro h; cases h with | bol _ hp => subst hp; rfl
  | eol =>
    constructor
    · intro h; exact .eol rfl (by simpa [nullable] using h)
    · intro h; cases h with | eol _ hp => subst hp; rfl
  | seq a b iha ihb =>
    simp only [nullable, Bool.and_eq_true]
    constructor
    · rintro ⟨ha, hb⟩
      exact .seq [] [] rfl (by simpa using iha.mp ha) (by simpa using ihb.mp hb)
    · intro h
      obtain ⟨s1, s2, hs, h1, h2⟩ := den_seq_iff.mp h
      have h12 : s1 = [] ∧ s2 = [] := by simpa using hs.symm
      obtain ⟨e1, e2⟩ := h12; subst e1; subst e2
      simp at h1 h2
      exact ⟨iha.mpr h1, ihb.mpr h2⟩
  | alt a b iha ihb =>
    simp only [nullable, Bool.or_eq_true, den_alt_iff, iha, ihb]
  | star a _ => exact ⟨fun _ => .star0 rfl, fun _ => rfl⟩

/-- The derivative: reading one rune `r` after `pre`. -/
theorem deriv_iff (re : Re) : ∀ (pre : Str) (r : Rune) (s post : Str),
    Den (deriv pre.isEmpty r.cp re) (pre ++ [r]) s post ↔ Den re pre (r :: s) post := by
  induction re with
  | none => intro pre r s post; exact ⟨fun h => absurd h den_none, fun h => absurd h den_none⟩
  | eps =>
    intro pre r s post
    exact ⟨fun h => absurd h den_none, fun h => by cases h with | eps hs => cases hs⟩
  | bol =>
    intro pre r s post
    exact ⟨fun h => absurd h den_none, fun h => by cases h with | bol hs _ => cases hs⟩
  | eol =>
    intro pre r s post
    exact ⟨fun h => absurd h den_none, fun h => by cases h with | eol hs _ => cases hs⟩
  | chr m =>
    intro pre r s post
    simp only [deriv]
    by_cases hm : m = r.cp
    · simp only [hm, if_true, den_eps_iff]
      constructor
      · intro hs; subst hs; exact .chr r rfl rfl
      · intro h; cases h with | chr r' hs _ => simpa using (List.cons.inj hs).2
    · simp only [hm, if_false]
      constructor
      · intro h; exact absurd h den_none
      · intro h
        cases h with
        | chr r' hs hc =>
          have := (List.cons.inj hs).1; subst this
          exact absurd hc.symm hm
  | any =>
    intro pre r s post
    simp only [deriv]
    by_cases hm : r.cp = 10
    · simp only [hm, if_true]
      constructor
      · intro h; exact absurd h den_none
      · intro h
        cases h with
        | any r' hs hc =>
          have := (List.cons.inj hs).1; subst this
          exact absurd hm hc
    · simp only [hm, if_false, den_eps_iff]
      constructor
      · intro hs; subst hs; exact .any r rfl hm
      · intro h; cases h with | any r' hs _ => simpa using (List.cons.inj hs).2
  | seq a b iha ihb =>
    intro pre r s post
    -- the two ways a derivative of `a·b` arises
    have left : Den (.seq (deriv pre.isEmpty r.cp a) b) (pre ++ [r]) s post ↔
        ∃ s1 s2, s = s1 ++ s2 ∧ Den a pre (r :: s1) (s2 ++ post) ∧ Den b (pre ++ r :: s1) s2 post := by
      rw [den_seq_iff]
      constructor
      · rintro ⟨s1, s2, hs, h1, h2⟩
        exact ⟨s1, s2, hs, (iha pre r s1 (s2 ++ post)).mp h1, by simpa using h2⟩
      · rintro ⟨s1, s2, hs, h1, h2⟩
        exact ⟨s1, s2, hs, (iha pre r s1 (s2 ++ post)).mpr h1, by simpa using h2⟩
    have hnull : nullable pre.isEmpty false a = true ↔ Den a pre [] (r :: s ++ post) := by
      have := nullable_iff a pre (r :: s ++ post)
      simpa using this
    have split : Den (.seq a b) pre (r :: s) post ↔
        (∃ s1 s2, s = s1 ++ s2 ∧ Den a pre (r :: s1) (s2 ++ post) ∧ Den b (pre ++ r :: s1) s2 post) ∨
        (Den a pre [] (r :: s ++ post) ∧ Den b pre (r :: s) post) := by
      rw [den_seq_iff]
      constructor
      · rintro ⟨s1, s2, hs, h1, h2⟩
        cases s1 with
        | nil =>
          simp at hs; subst hs
          exact .inr ⟨by simpa using h1, by simpa using h2⟩
        | cons r' s1' =>
          simp at hs
          obtain ⟨e1, e2⟩ := hs; subst e1
          exact .inl ⟨s1', s2, e2, h1, h2⟩
      · rintro (⟨s1, s2, hs, h1, h2⟩ | ⟨h1, h2⟩)
        · exact ⟨r :: s1, s2, by simp [hs], h1, h2⟩
        · exact ⟨[], r :: s, by simp, by simpa using h1, by simpa using h2⟩
    simp only [deriv]
    by_cases hn : nullable pre.isEmpty false a = true
    · simp only [hn, if_true]
      rw [den_mkAlt, den_alt_iff, den_mkSeq, left, split, ihb pre r s post]
      constructor
      · rintro (h | h)
        · exact .inl h
        · exact .inr ⟨hnull.mp hn, h⟩
      · rintro (h | ⟨_, h⟩)
        · exact .inl h
        · exact .inr h
    · simp only [hn, if_false, Bool.false_eq_true]
      rw [den_mkSeq, left, split]
      constructor
      · intro h; exact .inl h
      · rintro (h | ⟨h, _⟩)
        · exact h
        · exact absurd (hnull.mpr h) hn
  | alt a b iha ihb =>
    intro pre r s post
    simp only [deriv]
    rw [den_mkAlt, den_alt_iff, den_alt_iff, iha pre r s post, ihb pre r s post]
  | star a iha =>
    intro pre r s post
    simp only [deriv]
    rw [den_mkSeq, den_seq_iff]
    constructor
    · rintro ⟨s1, s2, hs, h1, h2⟩
      exact .starS (r :: s1) s2 (by simp [hs]) (by simp)
        ((iha pre r s1 (s2 ++ post)).mp h1) (by simpa using h2)
    · intro h
      cases h with
      | star0 hs => cases hs
      | starS s1 s2 hs hne h1 h2 =>
        cases s1 with
        | nil => exact absurd rfl hne
        | cons r' s1' =>
          simp at hs
          obtain ⟨e1, e2⟩ := hs; subst e1
          exact ⟨s1', s2, e2, (iha pre r s1' (s2 ++ post)).mpr h1, by simpa using h2⟩

theorem matchFrom_iff (s : Str) : ∀ (re : Re) (pre : Str),
    matchFrom pre.isEmpty re s = true ↔ Den re pre s [] := by
  induction s with
  | nil => intro re pre; simpa [matchFrom] using nullable_iff re pre []
  | cons r rest ih =>
    intro re pre
    have h := ih (deriv pre.isEmpty r.cp re) (pre ++ [r])
    have he : (pre ++ [r]).isEmpty = false := by cases pre <;> rfl
    rw [he] at h
    simp only [matchFrom, h]
    exact deriv_iff re pre r rest []

/-- **The executable matcher decides "the pattern matches the whole text".** -/
theorem matchRe_iff (re : Re) (t : Str) : matchRe re t = true ↔ FullMatch re t :=
  matchFrom_iff t re []

/-- **Fully anchored.**  A search (`MatchString`) for the wrapped expression
    `^(?:p)$` succeeds exactly when `p` matches the whole text — whatever `p` is:
    alternations at the top level, anchors of its own, `.*` at the ends. -/
theorem wrapped_search_iff_full_match (p : Re) (t : Str) : Search p.wrap t ↔ FullMatch p t := by
  unfold Search FullMatch Re.wrap
  constructor
  · rintro ⟨pre, s, post, ht, h⟩
    obtain ⟨s1, s2, hs, hb, hrest⟩ := den_seq_iff.mp h
    obtain ⟨t1, t2, ht', hp, he⟩ := den_seq_iff.mp hrest
    cases hb with
    | bol e1 e2 =>
      cases he with
      | eol e3 e4 =>
        subst e1 e2 e3 e4
        simp at ht' hs hp ht
        subst ht' hs ht
        exact hp
  · intro h
    exact ⟨[], t, [], by simp, .seq [] t (by simp) (.bol rfl rfl)
      (.seq t [] (by simp) (by simpa using h) (.eol rfl rfl))⟩

/-- A full match is in particular found by a search … -/
theorem search_of_full_match (p : Re) (t : Str) (h : FullMatch p t) : Search p t :=
  ⟨[], t, [], by simp, h⟩

/-- … but not conversely, and a pattern that merely LOOKS wrapped is not anchored:
    `^(?:a)|(b)$` is "starts with a" or "ends with b".  Compiled as it stands
    (instead of `^(?:^(?:a)|(b)$)$`) it accepts `ax` and `xb`. -/
def lookalike : Re := .alt (.seq .bol (.chr 97)) (.seq (.chr 98) .eol)

theorem lookalike_is_not_anchored :
    Search lookalike [.ch 'a', .ch 'x'] ∧ ¬ FullMatch lookalike [.ch 'a', .ch 'x'] ∧
    Search lookalike [.ch 'x', .ch 'b'] ∧ ¬ FullMatch lookalike [.ch 'x', .ch 'b'] ∧
    FullMatch lookalike [.ch 'a'] ∧ FullMatch lookalike [.ch 'b'] ∧
    ¬ Search lookalike.wrap [.ch 'a', .ch 'x'] := by
  refine ⟨⟨[], [.ch 'a'], [.ch 'x'], rfl, .altL (.seq [] [.ch 'a'] rfl (.bol rfl rfl) (.chr _ rfl rfl))⟩,
    ?_, ⟨[.ch 'x'], [.ch 'b'], [], rfl, .altR (.seq [.ch 'b'] [] rfl (.chr _ rfl rfl) (.eol rfl rfl))⟩,
    ?_, ?_, ?_, ?_⟩
  · rw [← matchRe_iff]; decide
  · rw [← matchRe_iff]; decide
  · rw [← matchRe_iff]; decide
  · rw [← matchRe_iff]; decide
  · rw [wrapped_search_iff_full_match, ← matchRe_iff]; decide

/-- A plain substring is found by a search and is not a full match: `b` in `abc`;
    `.` does not match a line feed, so `a.*` does not fully match `a\nb` although
    it is found in it. -/
theorem search_is_weaker_than_full_match :
    Search (.chr 98) [.ch 'a', .ch 'b', .ch 'c'] ∧ ¬ FullMatch (.chr 98) [.ch 'a', .ch 'b', .ch 'c'] ∧
    Search (.seq (.chr 97) (.star .any)) [.ch 'a', .ch '\n', .ch 'b'] ∧
    ¬ FullMatch (.seq (.chr 97) (.star .any)) [.ch 'a', .ch '\n', .ch 'b'] := by
  refine ⟨⟨[.ch 'a'], [.ch 'b'], [.ch 'c'], rfl, .chr _ rfl rfl⟩, ?_,
    ⟨[], [.ch 'a'], [.ch '\n', .ch 'b'], rfl, .seq [.ch 'a'] [] rfl (.chr _ rfl rfl) (.star0 rfl)⟩, ?_⟩
  · rw [← matchRe_iff]; decide
  · rw [← matchRe_iff]; decide

/-- `fm` of the match theorems, for patterns a parser `parse` maps into the fragment. -/
def fmOfParse (parse : Str → Option Re) (p v : Str) : Bool :=
  match parse p with
  | some re => matchRe re v
  | none => false

/-- **`=~` / `!~`.**  With the executable matcher as `fm`, a regex matcher holds
    for a value iff Go's search for the wrapped expression succeeds (`=~`) /
    fails (`!~`), i.e. iff the pattern matches the whole value / does not. -/
theorem regex_matcher_is_wrapped_search (parse : Str → Option Re) (m : Matcher) (re : Re) (s : Str)
    (hp : parse m.value = some re) :
    (m.op = .re → (m.matchesValue (fmOfParse parse) s = true ↔ Search re.wrap s)) ∧
    (m.op = .nre → (m.matchesValue (fmOfParse parse) s = true ↔ ¬ Search re.wrap s)) := by
  constructor
  · intro ho
    simp only [Matcher.matchesValue, ho, fmOfParse, hp, wrapped_search_iff_full_match, matchRe_iff]
  · intro ho
    simp only [Matcher.matchesValue, ho, fmOfParse, hp, wrapped_search_iff_full_match, ← matchRe_iff]
    simp

/-! ### non-vacuity -/

example : WellFormed (fun _ => true) ⟨.re, [.ch 'a', .ch ' ', .ch 'b'], [.ch '"', .ch '\\', .ch '\n']⟩ :=
  ⟨by simp [Valid], by simp [Valid], fun _ => rfl⟩

example : classicName [.ch 'f', .ch 'o', .ch 'o'] = true := by decide

end AM.Mt
