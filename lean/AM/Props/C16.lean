/-
  C16 — Matchers: parse/print round-trip, parser agreement, exact match semantics.

  Property theorems only; all are unbounded (any strings, any lists, any label
  sets).  Parameters: `ip` = `strconv.IsPrint` on code points (any table that
  does not call the line feed printable), `compiles` = "`regexp.Compile` accepts
  `^(?:v)$`", `fm` = "regular expression v matches the whole of s".

  The printer `print` is `Matcher.String` WITH fixes/F7.diff (an empty name is
  quoted).  For the pinned tree (`printPinned`) the round trip is false:
  `empty_name_counterexample`; with a non-empty name the two printers coincide
  (`printPinned_eq_print`), so every theorem below also holds of the pinned
  printer under the hypothesis `m.name ≠ []`.
-/
import AM.Lemmas.MatcherClassicRT
import AM.Lemmas.MatcherUTF8RT
import AM.Lemmas.MatcherTotal
import AM.Lemmas.MatcherFallbackRT
import AM.Lemmas.MatcherListRT
import AM.Lemmas.MatcherClassicListRT
import AM.Lemmas.MatcherFallbackListRT

namespace AM.Mt
open AM

/-- What the round-trip theorems assume of a matcher: name and value are valid
    UTF-8 and a regex value compiles (it was built by `NewMatcher`). -/
structure WellFormed (compiles : Str → Bool) (m : Matcher) : Prop where
  name : Valid m.name
  value : Valid m.value
  re : m.op.isRegex = true → compiles m.value = true

/-! ### round trips, one matcher -/

/-- UTF-8 mode: `parse.Matcher(m.String()) = m`, for every well-formed matcher. -/
theorem utf8_roundtrip (ip : Nat → Bool) (hp : ip 10 = false) (compiles : Str → Bool) (m : Matcher)
    (h : WellFormed compiles m) : utf8Matcher compiles (print ip m) = .ok m := by
  obtain ⟨op, name, value⟩ := m
  obtain ⟨n, rfl⟩ := valid_exists_chars h.name
  obtain ⟨v, rfl⟩ := valid_exists_chars h.value
  exact utf8Matcher_single compiles _ _ (readsAs_print ip hp compiles op n v h.re)

/-- Classic mode: `labels.ParseMatcher(m.String()) = m` when the name is a classic label name. -/
theorem classic_roundtrip (ip : Nat → Bool) (compiles : Str → Bool) (m : Matcher)
    (h : WellFormed compiles m) (hn : classicName m.name = true) :
    classicMatcher compiles (print ip m) = .ok m := by
  obtain ⟨op, name, value⟩ := m
  obtain ⟨v, rfl⟩ := valid_exists_chars h.value
  have hres : hasReserved name = false := classicName_no_reserved hn
  have hne : name.isEmpty = false := by
    obtain ⟨r, rest, hs, _, _⟩ := classicName_spec hn
    have hs' : name = r :: rest := hs
    simp [hs']
  simp only [print, hres, hne, Bool.or_self, Bool.false_eq_true, if_false]
  exact classicMatcher_printed compiles op name v hn h.re

/-- UTF-8 mode, lists: `parse.Matchers(ms.String()) = ms`, any length (including `{}`). -/
theorem utf8_roundtrip_list (ip : Nat → Bool) (hp : ip 10 = false) (compiles : Str → Bool) (ms : List Matcher)
    (h : ∀ m ∈ ms, WellFormed compiles m) : utf8Matchers compiles (printList ip ms) = .ok ms := by
  apply utf8Matchers_braced
  intro m hm
  have hw := h m hm
  obtain ⟨op, name, value⟩ := m
  obtain ⟨n, rfl⟩ := valid_exists_chars hw.name
  obtain ⟨v, rfl⟩ := valid_exists_chars hw.value
  exact readsAs_print ip hp compiles op n v hw.re

/-- Classic mode, lists: `labels.ParseMatchers(ms.String()) = ms` when every name is a
    classic label name (the comma splitter cuts exactly between the matchers). -/
theorem classic_roundtrip_list (ip : Nat → Bool) (compiles : Str → Bool) (ms : List Matcher)
    (h : ∀ m ∈ ms, WellFormed compiles m) (hn : ∀ m ∈ ms, classicName m.name = true) :
    classicMatchers compiles (printList ip ms) = .ok ms := by
  apply classicMatchers_printList ip compiles ms hn
  · intro m hm
    exact valid_exists_chars (h m hm).value
  · intro m hm
    exact classic_roundtrip ip compiles m (h m hm) (hn m hm)

/-- the pinned printer differs from the repaired one only for the empty name -/
theorem printPinned_eq_print (ip : Nat → Bool) (m : Matcher) (h : m.name ≠ []) :
    printPinned ip m = print ip m := by
  have : m.name.isEmpty = false := by
    cases hn : m.name with
    | nil => exact absurd hn h
    | cons _ _ => rfl
  simp [printPinned, print, this]

/-- F7: on the pinned tree a matcher with an empty name prints as `="x"`, which
    the UTF-8 parser (hence every mode) rejects — while `{""="x"}` parses to
    exactly that matcher. -/
theorem empty_name_counterexample :
    utf8Matcher (fun _ => true) (printPinned (fun _ => false) ⟨.eq, [], [.ch 'x']⟩) = .err .syntax ∧
    ofExcept (classicMatcher (fun _ => true) (printPinned (fun _ => false) ⟨.eq, [], [.ch 'x']⟩)) = .err .syntax ∧
    utf8Matcher (fun _ => true) [.ch '"', .ch '"', .ch '=', .ch '"', .ch 'x', .ch '"'] = .ok ⟨.eq, [], [.ch 'x']⟩ := by
  decide

/-! ### fallback mode -/

/-- `FallbackMatchersParser`, completely: -/
theorem fallback_spec_list (compiles : Str → Bool) (s : Str) :
    fallbackMatchers compiles s =
      match utf8Matchers compiles s, classicMatchers compiles s with
      | .panic, _ => .panic
      | .fuel, _ => .fuel
      | .err _, .error e => .err e
      | .err _, .ok c => .ok c
      | .ok n, .ok c => if n = c then .ok n else .ok c
      | .ok n, .error _ => .ok n := by
  unfold fallbackMatchers fallbackChoose
  cases utf8Matchers compiles s <;> cases classicMatchers compiles s <;> simp

/-- An input accepted by both parsers yields the classic result whenever they
    differ, and otherwise the common result (list parser). -/
theorem fallback_prefers_classic_list (compiles : Str → Bool) (s : Str) (n c : List Matcher)
    (hu : utf8Matchers compiles s = .ok n) (hc : classicMatchers compiles s = .ok c) :
    fallbackMatchers compiles s = .ok c ∧ (n = c → fallbackMatchers compiles s = .ok n) := by
  rw [fallback_spec_list, hu, hc]
  by_cases h : n = c <;> simp [h]

/-- An input accepted only by the classic parser is still accepted (list parser). -/
theorem classic_only_still_accepted_list (compiles : Str → Bool) (s : Str) (e : Err) (c : List Matcher)
    (hu : utf8Matchers compiles s = .err e) (hc : classicMatchers compiles s = .ok c) :
    fallbackMatchers compiles s = .ok c := by
  rw [fallback_spec_list, hu, hc]

/-- `FallbackMatcherParser`, completely (including its brace guard): -/
theorem fallback_spec (compiles : Str → Bool) (s : Str) :
    fallbackMatcher compiles s =
      if hasBracePrefix s || hasBraceSuffix s then .err .brace else
      match utf8Matcher compiles s, classicMatcher compiles s with
      | .panic, _ => .panic
      | .fuel, _ => .fuel
      | .err _, .error e => .err e
      | .err _, .ok c => .ok c
      | .ok n, .ok c => if n = c then .ok n else .ok c
      | .ok n, .error _ => .ok n := by
  unfold fallbackMatcher fallbackChoose
  split
  · rfl
  · cases utf8Matcher compiles s <;> cases classicMatcher compiles s <;> simp

/-- single matcher: both accept ⇒ the classic result (the common one when they agree),
    for input without a leading '{' / trailing '}' -/
theorem fallback_prefers_classic (compiles : Str → Bool) (s : Str) (n c : Matcher)
    (hb : (hasBracePrefix s || hasBraceSuffix s) = false)
    (hu : utf8Matcher compiles s = .ok n) (hc : classicMatcher compiles s = .ok c) :
    fallbackMatcher compiles s = .ok c ∧ (n = c → fallbackMatcher compiles s = .ok n) := by
  rw [fallback_spec, hb, hu, hc]
  by_cases h : n = c <;> simp [h]

/-- single matcher: accepted only by the classic parser ⇒ still accepted,
    for input without a leading '{' / trailing '}' -/
theorem classic_only_still_accepted (compiles : Str → Bool) (s : Str) (e : Err) (c : Matcher)
    (hb : (hasBracePrefix s || hasBraceSuffix s) = false)
    (hu : utf8Matcher compiles s = .err e) (hc : classicMatcher compiles s = .ok c) :
    fallbackMatcher compiles s = .ok c := by
  rw [fallback_spec, hb, hu, hc]
  simp

/-- Fallback mode: `compat.Matcher(m.String()) = m`, for every well-formed matcher
    (the classic parser agrees when the name is classic and fails otherwise). -/
theorem fallback_roundtrip (ip : Nat → Bool) (hp : ip 10 = false) (compiles : Str → Bool) (m : Matcher)
    (h : WellFormed compiles m) : fallbackMatcher compiles (print ip m) = .ok m := by
  rw [fallback_spec, print_no_brace_guard, utf8_roundtrip ip hp compiles m h]
  by_cases hn : classicName m.name = true
  · rw [classic_roundtrip ip compiles m h hn]; simp
  · rw [classicMatcher_print_nonclassic ip compiles m (by simpa using hn)]; simp

/-- Fallback mode, lists: `compat.Matchers(ms.String()) = ms` for every list of
    well-formed matchers: the classic parser reads the same list back when all
    names are classic and rejects the text otherwise. -/
theorem fallback_roundtrip_list (ip : Nat → Bool) (hp : ip 10 = false) (compiles : Str → Bool) (ms : List Matcher)
    (h : ∀ m ∈ ms, WellFormed compiles m) : fallbackMatchers compiles (printList ip ms) = .ok ms := by
  rw [fallback_spec_list, utf8_roundtrip_list ip hp compiles ms h]
  by_cases hn : ∀ m ∈ ms, classicName m.name = true
  · rw [classic_roundtrip_list ip compiles ms h hn]; simp
  · have hbad : ∃ m ∈ ms, classicName m.name = false := by
      apply Classical.byContradiction
      intro hno
      apply hn
      intro m hm
      cases hcn : classicName m.name
      · exact absurd ⟨m, hm, hcn⟩ hno
      · rfl
    rw [classicMatchers_printList_nonclassic ip compiles ms ?_ ?_ hbad]
    · intro m hm
      obtain ⟨n, hn'⟩ := valid_exists_chars (h m hm).name
      obtain ⟨v, hv'⟩ := valid_exists_chars (h m hm).value
      exact ⟨n, v, hn', hv'⟩
    · intro m hm hcn
      exact classic_roundtrip ip compiles m (h m hm) hcn

/-- The brace guard is real: `foo=bar}` is a classic matcher (value `bar}`), the
    UTF-8 parser rejects it, and `compat.Matcher` in fallback mode rejects it too
    — the single-matcher form of "classic-only input is still accepted" needs
    the hypothesis above. -/
theorem brace_guard_rejects_classic_input :
    ofExcept (classicMatcher (fun _ => true) [.ch 'f', .ch '=', .ch 'b', .ch '}']) = .ok ⟨.eq, [.ch 'f'], [.ch 'b', .ch '}']⟩ ∧
    utf8Matcher (fun _ => true) [.ch 'f', .ch '=', .ch 'b', .ch '}'] = .err .syntax ∧
    fallbackMatcher (fun _ => true) [.ch 'f', .ch '=', .ch 'b', .ch '}'] = .err .brace := by
  decide

/-! ### totality -/

theorem fallbackChoose_total {α : Type} [DecidableEq α] (n : Outcome α) (c : Except Err α)
    (h : n ≠ .panic ∧ n ≠ .fuel) : fallbackChoose n c ≠ .panic ∧ fallbackChoose n c ≠ .fuel := by
  unfold fallbackChoose
  cases n with
  | panic => exact absurd rfl h.1
  | fuel => exact absurd rfl h.2
  | err e => cases c <;> simp
  | ok nm =>
    cases c with
    | error e => simp
    | ok cm => by_cases hx : nm = cm <;> simp [hx]

/-- No input makes a parser panic or loop.  The classic parsers (`classicMatcher`,
    `classicMatchers : Str → Except Err _`) are structural recursions, total by
    construction; the UTF-8 automaton never reaches one of the `panic(...)` sites of
    parse.go and always stops within its fuel `3·|input| + 6`; the fallback
    parsers inherit both. -/
theorem parsers_total (compiles : Str → Bool) (s : Str) :
    (utf8Matchers compiles s ≠ .panic ∧ utf8Matchers compiles s ≠ .fuel) ∧
    (utf8Matcher compiles s ≠ .panic ∧ utf8Matcher compiles s ≠ .fuel) ∧
    (fallbackMatchers compiles s ≠ .panic ∧ fallbackMatchers compiles s ≠ .fuel) ∧
    (fallbackMatcher compiles s ≠ .panic ∧ fallbackMatcher compiles s ≠ .fuel) := by
  refine ⟨utf8Matchers_total compiles s, utf8Matcher_total compiles s, ?_, ?_⟩
  · exact fallbackChoose_total _ _ (utf8Matchers_total compiles s)
  · unfold fallbackMatcher
    split
    · simp
    · exact fallbackChoose_total _ _ (utf8Matcher_total compiles s)

/-! ### match semantics -/

theorem matchesValue_spec (fm : Str → Str → Bool) (m : Matcher) (s : Str) :
    m.matchesValue fm s = true ↔
      match m.op with
      | .eq => s = m.value
      | .ne => s ≠ m.value
      | .re => fm m.value s = true
      | .nre => fm m.value s = false := by
  unfold Matcher.matchesValue
  cases m.op <;> simp

/-- a label that is not in the set reads as the empty string -/
theorem get_missing (ls : LabelSet) (n : Str) (h : ∀ kv ∈ ls, kv.1 ≠ n) : ls.get n = [] := by
  induction ls with
  | nil => rfl
  | cons kv rest ih =>
    obtain ⟨k, v⟩ := kv
    have hk : k ≠ n := h (k, v) (by simp)
    simp only [LabelSet.get, hk, if_false]
    exact ih (fun kv hkv => h kv (by simp [hkv]))

theorem get_present (ls : LabelSet) (n v : Str) : LabelSet.get ((n, v) :: ls) n = v := by
  simp [LabelSet.get]

/-- `Matchers.Matches`: a list matches a label set iff every matcher holds for
    the value of its label (missing = ""). -/
theorem matches_spec (fm : Str → Str → Bool) (ms : List Matcher) (ls : LabelSet) :
    matchesAll fm ms ls = true ↔ ∀ m ∈ ms, m.matchesValue fm (ls.get m.name) = true := by
  induction ms with
  | nil => simp [matchesAll]
  | cons m rest ih =>
    unfold matchesAll
    by_cases h : m.matchesValue fm (ls.get m.name) = true
    · simp [h, ih]
    · simp [h]

/-- `MatcherSet.Matches`: OR over the lists. -/
theorem matcherset_spec (fm : Str → Str → Bool) (sets : List (List Matcher)) (ls : LabelSet) :
    matchesAny fm sets ls = true ↔ ∃ ms ∈ sets, matchesAll fm ms ls = true := by
  induction sets with
  | nil => simp [matchesAny]
  | cons ms rest ih =>
    unfold matchesAny
    by_cases h : matchesAll fm ms ls = true
    · simp [h]
    · simp [h, ih]

/-! ### non-vacuity -/

example : WellFormed (fun _ => true) ⟨.re, [.ch 'a', .ch ' ', .ch 'b'], [.ch '"', .ch '\\', .ch '\n']⟩ :=
  ⟨by simp [Valid], by simp [Valid], fun _ => rfl⟩

example : classicName [.ch 'f', .ch 'o', .ch 'o'] = true := by decide

end AM.Mt
