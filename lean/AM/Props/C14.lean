/-
  C14 — Updates of one alert are applied to its groups in submission order.

  First part: the REPAIRED ingestion (fixes/F3.diff, per-fingerprint worker
  queues): for every schedule, once everything submitted has been processed, each
  alert's group holds the most recently submitted version.
  Second part: the pinned tree (`Legacy.*`): two workers suffice to leave the
  older version in the group (finding F3, decided by the kernel); with a single
  worker the statement holds.
-/
import AM.Model.Workers
import AM.Model.PutOrder

namespace AM.Workers

/-! ### small list facts -/

theorem ofFp_append (f : Nat) (a b : List Upd) : ofFp f (a ++ b) = ofFp f a ++ ofFp f b := by
  simp [ofFp]

theorem ofFp_cons_eq (u : Upd) (l : List Upd) : ofFp u.fp (u :: l) = u :: ofFp u.fp l := by
  simp [ofFp]

theorem ofFp_cons_ne (f : Nat) (u : Upd) (l : List Upd) (h : u.fp ≠ f) : ofFp f (u :: l) = ofFp f l := by
  simp [ofFp, h]

theorem lastOr_snoc (P : List Upd) (u : Upd) (d : Option Upd) : lastOr (P ++ [u]) d = some u := by
  simp [lastOr]

/-! ### the invariant of the repaired discipline -/

structure Inv (owner : Nat → Nat) (subs : List Upd) (g0 : Group) (s : State) : Prop where
  /-- a worker's queue only holds alerts it owns -/
  own : ∀ w u, u ∈ s.q w → owner u.fp = w
  /-- per alert: applied ++ queued ++ still in the channel = submitted, and the group holds the last applied -/
  pref : ∀ f, ∃ P, P ++ (ofFp f (s.q (owner f)) ++ ofFp f s.chan) = ofFp f subs ∧ s.group f = lastOr P (g0 f)

theorem init_inv (owner : Nat → Nat) (subs : List Upd) (g0 : Group) : Inv owner subs g0 (init subs g0) := by
  refine ⟨?_, ?_⟩
  · intro w u hu; simp [init] at hu
  · intro f; exact ⟨[], by simp [init, ofFp], by simp [init, lastOr]⟩

theorem step_inv (owner : Nat → Nat) (subs : List Upd) (g0 : Group) (s s' : State) (st : Step)
    (h : Inv owner subs g0 s) (hs : step owner s st = some s') : Inv owner subs g0 s' := by
  cases st with
  | dist =>
    simp only [step] at hs
    cases hc : s.chan with
    | nil => simp [hc] at hs
    | cons u rest =>
      simp only [hc, Option.some.injEq] at hs
      subst hs
      refine ⟨?_, ?_⟩
      · intro w x hx
        simp only [setQ] at hx
        by_cases hw : w = owner u.fp
        · subst hw
          simp only [if_true, List.mem_append, List.mem_singleton] at hx
          rcases hx with hx | rfl
          · exact h.own _ x hx
          · rfl
        · simp only [hw, if_false] at hx; exact h.own w x hx
      · intro f
        obtain ⟨P, hP, hg⟩ := h.pref f
        refine ⟨P, ?_, hg⟩
        rw [hc] at hP
        simp only [setQ]
        by_cases hf : u.fp = f
        · subst hf
          simp only [if_true, ofFp_append]
          rw [ofFp_cons_eq] at hP
          simpa [ofFp, List.append_assoc] using hP
        · rw [ofFp_cons_ne f u rest hf] at hP
          by_cases ho : owner f = owner u.fp
          · simp only [ho, if_true, ofFp_append]
            rw [ho] at hP
            have : ofFp f [u] = [] := by simp [ofFp, hf]
            simpa [this] using hP
          · simpa [ho] using hP
  | apply w =>
    simp only [step] at hs
    cases hq : s.q w with
    | nil => simp [hq] at hs
    | cons u rest =>
      simp only [hq, Option.some.injEq] at hs
      subst hs
      have hown : owner u.fp = w := h.own w u (by simp [hq])
      refine ⟨?_, ?_⟩
      · intro w' x hx
        simp only [setQ] at hx
        by_cases hw : w' = w
        · subst hw
          simp only [if_true] at hx
          exact h.own _ x (by simp [hq, hx])
        · simp only [hw, if_false] at hx; exact h.own w' x hx
      · intro f
        obtain ⟨P, hP, hg⟩ := h.pref f
        by_cases hf : u.fp = f
        · subst hf
          rw [hown, hq, ofFp_cons_eq] at hP
          refine ⟨P ++ [u], ?_, ?_⟩
          · simp only [setQ, hown, if_true]
            simpa [List.append_assoc] using hP
          · simp [Group.set, lastOr_snoc]
        · refine ⟨P, ?_, ?_⟩
          · simp only [setQ]
            by_cases ho : owner f = w
            · rw [ho, hq, ofFp_cons_ne f u rest hf] at hP
              simpa [ho] using hP
            · simpa [ho] using hP
          · have : f ≠ u.fp := fun e => hf e.symm
            simpa [Group.set, this] using hg

theorem run_inv (owner : Nat → Nat) (subs : List Upd) (g0 : Group) (sched : List Step) (s s' : State)
    (h : Inv owner subs g0 s) (hr : run owner s sched = some s') : Inv owner subs g0 s' := by
  induction sched generalizing s with
  | nil => simp [run] at hr; subst hr; exact h
  | cons st rest ih =>
    simp only [run] at hr
    cases hs : step owner s st with
    | none => simp [hs] at hr
    | some s1 =>
      simp only [hs] at hr
      exact ih s1 (step_inv owner subs g0 s s1 st h hs) hr

/-- **final_is_last_submitted.**  For every assignment of alerts to workers, every
    submission sequence and EVERY schedule of the distributor and the workers:
    once everything submitted has been processed, each alert's group holds the
    version submitted last (or what it held before, if nothing was submitted). -/
theorem final_is_last_submitted (owner : Nat → Nat) (subs : List Upd) (g0 : Group) (sched : List Step)
    (s : State) (hr : run owner (init subs g0) sched = some s) (hq : s.quiescent) (f : Nat) :
    s.group f = lastOr (ofFp f subs) (g0 f) := by
  have hinv := run_inv owner subs g0 sched (init subs g0) s (init_inv owner subs g0) hr
  obtain ⟨P, hP, hg⟩ := hinv.pref f
  obtain ⟨hc, hqq⟩ := hq
  rw [hc, hqq] at hP
  simp [ofFp] at hP
  rw [hg, hP]
  rfl

/-- **fire_then_resolve_not_stale**: an alert fired and then resolved is never left firing in its group. -/
theorem fire_then_resolve_not_stale (owner : Nat → Nat) (subs : List Upd) (g0 : Group) (sched : List Step)
    (s : State) (hr : run owner (init subs g0) sched = some s) (hq : s.quiescent)
    (f : Nat) (fire resolve : Upd) (h : ofFp f subs = [fire, resolve]) :
    s.group f = some resolve := by
  rw [final_is_last_submitted owner subs g0 sched s hr hq f, h]; rfl

/-- **resolve_then_fire_not_dropped**: an alert resolved and then fired again is left firing in its group. -/
theorem resolve_then_fire_not_dropped (owner : Nat → Nat) (subs : List Upd) (g0 : Group) (sched : List Step)
    (s : State) (hr : run owner (init subs g0) sched = some s) (hq : s.quiescent)
    (f : Nat) (resolve fire : Upd) (h : ofFp f subs = [resolve, fire]) :
    s.group f = some fire := by
  rw [final_is_last_submitted owner subs g0 sched s hr hq f, h]; rfl

/-- progress: while something is left, some step is enabled (no schedule gets stuck before quiescence). -/
theorem not_quiescent_can_step (owner : Nat → Nat) (s : State) (h : ¬ s.quiescent) :
    ∃ st s', step owner s st = some s' := by
  unfold State.quiescent at h
  cases hc : s.chan with
  | cons u rest => exact ⟨.dist, _, by simp only [step, hc]; rfl⟩
  | nil =>
    have : ¬ ∀ w, s.q w = [] := fun hall => h ⟨hc, hall⟩
    have ⟨w, hw⟩ : ∃ w, s.q w ≠ [] := Classical.not_forall.mp this
    cases hq : s.q w with
    | nil => exact absurd hq hw
    | cons u rest => exact ⟨.apply w, _, by simp only [step, hq]; rfl⟩

/-! ### the pinned tree (finding F3) -/

namespace F3
def fire : Upd := { fp := 1, ver := 1 }
def resolve : Upd := { fp := 1, ver := 2 }
/-- worker 0 receives `fire`, worker 1 receives `resolve` and applies it first. -/
def sched : List Legacy.Step := [.recv 0, .recv 1, .apply 1, .apply 0]
def view (s : Legacy.State) : List Upd × Option Upd × Option Upd × Option Upd := (s.chan, s.held 0, s.held 1, s.group 1)
end F3

open F3 in
/-- **two_worker_reorder.**  On the pinned tree two workers are enough: the
    schedule is enabled, runs to quiescence, and the group is left with the OLDER
    version (`fire`) although `resolve` was submitted last. -/
theorem two_worker_reorder :
    (Legacy.run 2 (Legacy.init [fire, resolve] (fun _ => none)) sched).map view = some ([], none, none, some fire) := by
  decide

open F3 in
/-- the full statement is false of the pinned tree. -/
theorem final_is_last_submitted_false_for_pinned_tree :
    ¬ ∀ (n : Nat) (subs : List Upd) (sched : List Legacy.Step) (s : Legacy.State),
        Legacy.run n (Legacy.init subs (fun _ => none)) sched = some s →
        s.chan = [] → (∀ w, s.held w = none) → ∀ f, s.group f = lastOr (ofFp f subs) none := by
  intro hall
  cases hr : Legacy.run 2 (Legacy.init [fire, resolve] (fun _ => none)) sched with
  | none => have := two_worker_reorder; rw [hr] at this; simp at this
  | some s =>
    have hv := two_worker_reorder
    rw [hr] at hv
    simp only [Option.map_some, Option.some.injEq, view, Prod.mk.injEq] at hv
    obtain ⟨hc, h0, h1, hg⟩ := hv
    have hheld : ∀ w, s.held w = none := by
      -- only workers 0 and 1 ever hold anything in a 2-worker run; read it off the run
      intro w
      have : (Legacy.run 2 (Legacy.init [fire, resolve] (fun _ => none)) sched).map (fun s => s.held w) = some none := by
        simp only [sched, Legacy.run, Legacy.step, Legacy.init, fire, resolve]
        by_cases hw0 : w = 0
        · subst hw0; decide
        · by_cases hw1 : w = 1
          · subst hw1; decide
          · simp [hw0, hw1]
      rw [hr] at this
      simpa using this
    have := hall 2 [fire, resolve] sched s hr hc hheld 1
    rw [hg] at this
    simp [lastOr, ofFp, fire, resolve] at this

/-- invariant of the pinned discipline run with ONE worker, for alert `f`. -/
structure Legacy.Inv1 (subs : List Upd) (g0 : Group) (f : Nat) (s : Legacy.State) : Prop where
  others : ∀ w, w ≠ 0 → s.held w = none
  pref : ∃ P, P ++ (ofFp f (s.held 0).toList ++ ofFp f s.chan) = ofFp f subs ∧ s.group f = lastOr P (g0 f)

theorem Legacy.step1_inv (subs : List Upd) (g0 : Group) (f : Nat) (s s' : Legacy.State) (st : Legacy.Step)
    (h : Legacy.Inv1 subs g0 f s) (hs : Legacy.step 1 s st = some s') : Legacy.Inv1 subs g0 f s' := by
  obtain ⟨hoth, P, hP, hg⟩ := h
  cases st with
  | recv w =>
    simp only [Legacy.step] at hs
    by_cases hw : w < 1
    · have hw0 : w = 0 := by omega
      subst hw0
      simp only [hw, if_true] at hs
      cases hh0 : s.held 0 with
      | some x => simp [hh0] at hs
      | none =>
        cases hch : s.chan with
        | nil => simp [hh0, hch] at hs
        | cons u rest =>
          simp only [hh0, hch, Option.some.injEq] at hs
          subst hs
          refine ⟨?_, P, ?_, hg⟩
          · intro w hw'; simp [hw', hoth w hw']
          · rw [hh0, hch] at hP
            by_cases hf : u.fp = f
            · subst hf; simpa [ofFp] using hP
            · simpa [ofFp, hf] using hP
    · simp [hw] at hs
  | apply w =>
    simp only [Legacy.step] at hs
    cases hhw : s.held w with
    | none => simp [hhw] at hs
    | some u =>
      have hw0 : w = 0 := by
        by_cases hw0 : w = 0
        · exact hw0
        · rw [hoth w hw0] at hhw; cases hhw
      subst hw0
      simp only [hhw, Option.some.injEq] at hs
      subst hs
      rw [hhw] at hP
      refine ⟨?_, ?_⟩
      · intro w hw'; simp [hw', hoth w hw']
      · by_cases hf : u.fp = f
        · subst hf
          refine ⟨P ++ [u], ?_, ?_⟩
          · simpa [ofFp, List.append_assoc] using hP
          · simp [Group.set, lastOr_snoc]
        · refine ⟨P, ?_, ?_⟩
          · simpa [ofFp, hf] using hP
          · have : f ≠ u.fp := fun e => hf e.symm
            simpa [Group.set, this] using hg

/-- **final_is_last_submitted_partial** (pinned tree): with a single ingestion
    worker the channel order is the application order.  (The pinned dispatcher
    never runs fewer than two workers, so this is what the pinned code does NOT
    give; the full statement above is proved for the repaired code.) -/
theorem final_is_last_submitted_partial (subs : List Upd) (g0 : Group) (sched : List Legacy.Step)
    (s : Legacy.State) (hr : Legacy.run 1 (Legacy.init subs g0) sched = some s)
    (hc : s.chan = []) (hh : s.held 0 = none) (f : Nat) :
    s.group f = lastOr (ofFp f subs) (g0 f) := by
  have key : ∀ (sched : List Legacy.Step) (s0 s : Legacy.State), Legacy.Inv1 subs g0 f s0 →
      Legacy.run 1 s0 sched = some s → Legacy.Inv1 subs g0 f s := by
    intro sched
    induction sched with
    | nil => intro s0 s h hr; simp [Legacy.run] at hr; subst hr; exact h
    | cons st rest ih =>
      intro s0 s h hr
      simp only [Legacy.run] at hr
      cases hs : Legacy.step 1 s0 st with
      | none => simp [hs] at hr
      | some s1 =>
        simp only [hs] at hr
        exact ih s1 s (Legacy.step1_inv subs g0 f s0 s1 st h hs) hr
  have hinit : Legacy.Inv1 subs g0 f (Legacy.init subs g0) :=
    ⟨by intro w _; rfl, [], by simp [Legacy.init, ofFp], by simp [Legacy.init, lastOr]⟩
  obtain ⟨_, P, hP, hg⟩ := key sched _ s hinit hr
  rw [hc, hh] at hP
  simp [ofFp] at hP
  rw [hg, hP]
  rfl

/-! ### dispatcher (re)start: the initial load

  The spec with an initial load: the snapshot versions are older than everything on the subscription, so once
  everything has been processed an alert's group holds the last SUBSCRIBED version, else its snapshot version,
  else what it held before.  True of the code as it is (snapshot routed before `run(it)` starts) for every
  schedule; false, with a three-step schedule, as soon as the snapshot is routed while the workers run. -/
namespace Load

theorem loadAll_spec (snap : List Upd) : ∀ (g : Group) (f : Nat), loadAll snap g f = lastOr (ofFp f snap) (g f) := by
  induction snap with
  | nil => intro g f; simp [loadAll, ofFp, lastOr]
  | cons u rest ih =>
    intro g f
    simp only [loadAll]
    rw [ih]
    by_cases hf : u.fp = f
    · subst hf
      rw [ofFp_cons_eq]
      cases hr : (ofFp u.fp rest).getLast? with
      | none =>
        have : ofFp u.fp rest = [] := by simpa using hr
        simp [lastOr, this, Group.set]
      | some x =>
        have hne : ofFp u.fp rest ≠ [] := by intro h; simp [h] at hr
        simp [lastOr, hr, List.getLast?_cons_of_ne_nil hne]
    · rw [ofFp_cons_ne f u rest hf]
      have : f ≠ u.fp := fun e => hf e.symm
      simp [Group.set, this]

/-- a sequential run that finishes the snapshot is: route the whole snapshot, then a run of the workers alone -/
theorem seq_decompose (owner : Nat → Nat) : ∀ (sched : List Step) (s s' : State),
    run false owner s sched = some s' → s'.snap = [] →
    ∃ sched', Workers.run owner { s.w with group := loadAll s.snap s.w.group } sched' = some s'.w := by
  intro sched
  induction sched with
  | nil =>
    intro s s' h hs
    simp only [run, Option.some.injEq] at h
    subst h
    exact ⟨[], by simp [Workers.run, hs, loadAll]⟩
  | cons st rest ih =>
    intro s s' h hs
    simp only [run] at h
    cases hst : step false owner s st with
    | none => simp [hst] at h
    | some s1 =>
      simp only [hst] at h
      obtain ⟨sched', hr⟩ := ih s1 s' h hs
      cases st with
      | load =>
        simp only [step] at hst
        cases hsn : s.snap with
        | nil => simp [hsn] at hst
        | cons u r =>
          simp only [hsn, Option.some.injEq] at hst
          subst hst
          exact ⟨sched', by simpa [loadAll] using hr⟩
      | work wst =>
        simp only [step, Bool.false_or] at hst
        by_cases he : s.snap.isEmpty = true
        · simp only [he, if_true] at hst
          cases hw : Workers.step owner s.w wst with
          | none => simp [hw] at hst
          | some w' =>
            simp only [hw, Option.some.injEq] at hst
            subst hst
            have hnil : s.snap = [] := by simpa using he
            simp only [hnil, loadAll] at hr ⊢
            exact ⟨wst :: sched', by simp only [Workers.run, hw]; exact hr⟩
        · simp [he] at hst

/-- **final_is_last_submitted** with an initial load, for the code as it is (the snapshot is routed before the
    distributor and the workers start): for every owner function, snapshot, subscription sequence and EVERY
    schedule, once everything has been processed each alert's group holds the version submitted last — the last
    one on the subscription, else the snapshot's, else what the group held. -/
theorem final_is_last_submitted (owner : Nat → Nat) (snap subs : List Upd) (g0 : Group) (sched : List Step)
    (s : State) (hr : run false owner (init snap subs g0) sched = some s) (hq : s.quiescent) (f : Nat) :
    s.w.group f = lastOr (ofFp f subs) (lastOr (ofFp f snap) (g0 f)) := by
  obtain ⟨hsn, hwq⟩ := hq
  obtain ⟨sched', hr'⟩ := seq_decompose owner sched _ s hr hsn
  have := Workers.final_is_last_submitted owner subs (loadAll snap g0) sched' s.w hr' hwq f
  rw [this, loadAll_spec]

/-- restart: a fresh dispatcher (empty groups) on a provider holding `snap` -/
theorem restart_holds_latest (owner : Nat → Nat) (snap subs : List Upd) (sched : List Step)
    (s : State) (hr : run false owner (init snap subs (fun _ => none)) sched = some s) (hq : s.quiescent) (f : Nat) :
    s.w.group f = lastOr (ofFp f (snap ++ subs)) none := by
  rw [final_is_last_submitted owner snap subs _ sched s hr hq f, ofFp_append]
  cases hs : (ofFp f subs).getLast? with
  | none =>
    have : ofFp f subs = [] := by simpa using hs
    simp [lastOr, this]
  | some x =>
    simp [lastOr, hs, List.getLast?_append]

/-- while snapshot items remain, the code as it is lets no worker step happen -/
theorem no_worker_step_while_loading (owner : Nat → Nat) (s : State) (st : Workers.Step) (h : s.snap ≠ []) :
    step false owner s (.work st) = none := by
  cases hs : s.snap with
  | nil => exact absurd hs h
  | cons u r => simp [step, hs]

namespace Witness
def fire : Upd := { fp := 1, ver := 1 }
def resolve : Upd := { fp := 1, ver := 2 }
/-- the provider holds `fire` when the dispatcher starts; `resolve` arrives on the subscription; the distributor
    and worker 0 handle it before the snapshot loop reaches the alert. -/
def sched : List Step := [.work .dist, .work (.apply 0), .load]
def view (s : State) : List Upd × List Upd × List Upd × Option Upd := (s.snap, s.w.chan, s.w.q 0, s.w.group 1)
end Witness

open Witness in
/-- **initial_load_reorder**: with the snapshot routed concurrently with the workers, the schedule is enabled,
    runs to quiescence and leaves the OLDER version (`fire`) in the group although `resolve` was submitted last. -/
theorem initial_load_reorder :
    (run true (fun _ => 0) (init [fire] [resolve] (fun _ => none)) sched).map view = some ([], [], [], some fire) := by
  decide

open Witness in
/-- the same schedule is not a schedule of the code as it is -/
theorem initial_load_reorder_not_sequential :
    (run false (fun _ => 0) (init [fire] [resolve] (fun _ => none)) sched).map view = none := by
  decide

open Witness in
/-- the full statement is false for "initial load concurrent with the workers". -/
theorem final_is_last_submitted_false_for_concurrent_load :
    ¬ ∀ (owner : Nat → Nat) (snap subs : List Upd) (sched : List Step) (s : State),
        run true owner (init snap subs (fun _ => none)) sched = some s → s.snap = [] → s.w.chan = [] → s.w.q 0 = [] →
        s.w.group 1 = lastOr (ofFp 1 subs) (lastOr (ofFp 1 snap) none) := by
  intro hall
  have hv := initial_load_reorder
  cases hr : run true (fun _ => 0) (init [fire] [resolve] (fun _ => none)) sched with
  | none => rw [hr] at hv; simp at hv
  | some s =>
    rw [hr] at hv
    simp only [Option.map_some, Option.some.injEq, view, Prod.mk.injEq] at hv
    obtain ⟨h1, h2, h3, h4⟩ := hv
    have := hall (fun _ => 0) [fire] [resolve] sched s hr h1 h2 h3
    rw [h4] at this
    simp [lastOr, ofFp, fire, resolve] at this

end Load

end AM.Workers

namespace AM.PutOrder

/-- **Store order is publish order.**  With store-and-publish atomic per submission, every subscriber that
    applies updates in the order it receives them (`final_is_last_submitted`) ends up with exactly the version
    the provider holds, whatever the order and concurrency of the submissions. -/
theorem group_holds_stored_version (puts : List (Nat × String)) (id : Nat) :
    applied id (atomicTrace puts) = stored id (atomicTrace puts) := by
  induction puts with
  | nil => rfl
  | cons p rest ih =>
    obtain ⟨i, v⟩ := p
    simp only [atomicTrace, applied, stored, ih]

/-- Releasing the lock between the store and the publish lets a later submission overtake: the subscriber
    keeps the older version while the provider holds the newer one. -/
theorem split_put_reorders :
    ∃ t : List Eff, stored 1 t = some "v2" ∧ applied 1 t = some "v1" :=
  ⟨[.store 1 "v1", .store 1 "v2", .publish 1 "v2", .publish 1 "v1"], by decide, by decide⟩

example : applied 1 (atomicTrace [(1, "f1"), (1, "r2")]) = some "r2" := by decide

end AM.PutOrder
