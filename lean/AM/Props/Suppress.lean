/-
  Suppressed alerts are never notified (the flush clauses of C02, C03, C15, and the
  "not suppressed" hypothesis of C01): theorems about AM.Suppress + AM.Dedup.
-/
import AM.Model.Suppress

namespace AM.Suppress
open AM AM.Dedup

theorem reason_none_iff (v : Verdicts) (id : Nat) :
    reason v id = none ↔ v.inhibited id = false ∧ v.timeMuted = false ∧ v.silenced id = false := by
  unfold reason
  cases hi : v.inhibited id <;> cases ht : v.timeMuted <;> cases hs : v.silenced id <;> simp

/-- **Exactly the unsuppressed alerts survive** the mute stages. -/
theorem surviving_iff (v : Verdicts) (alerts : List (Nat × Bool)) (a : Nat × Bool) :
    a ∈ surviving v alerts ↔
      a ∈ alerts ∧ v.inhibited a.1 = false ∧ v.timeMuted = false ∧ v.silenced a.1 = false := by
  unfold surviving
  rw [List.mem_filter, Option.isNone_iff_eq_none, reason_none_iff]

/-- **A muted flush sends nothing** (C15): inside a mute interval / outside the active intervals no alert survives,
    whatever the muters say. -/
theorem time_muted_nothing_survives (v : Verdicts) (alerts : List (Nat × Bool)) (h : v.timeMuted = true) :
    surviving v alerts = [] := by
  unfold surviving
  rw [List.filter_eq_nil_iff]
  intro a _
  unfold reason
  cases hi : v.inhibited a.1 <;> simp [h]

theorem time_muted_path_empty (c : Cfg) (s : Nflog.State) (v : Verdicts) (tick wall : Int)
    (alerts : List (Nat × Bool)) (accept : Bool) (h : v.timeMuted = true) :
    path c s (toFlush v tick wall alerts accept) = .empty ∧
    (flushStep c s (toFlush v tick wall alerts accept)).sent = none ∧
    (flushStep c s (toFlush v tick wall alerts accept)).st = s := by
  have hs := time_muted_nothing_survives v alerts h
  have hp : path c s (toFlush v tick wall alerts accept) = .empty := by
    unfold path toFlush; simp [hs]
  refine ⟨hp, ?_, ?_⟩ <;> simp [flushStep, hp]

/-- what a notification lists comes from the flush it was built from -/
theorem sent_lists_flush (c : Cfg) (s : Nflog.State) (f : Flush) (n : Notification)
    (h : (flushStep c s f).sent = some n) :
    n.firing = f.firing ∧ (∀ x, x ∈ n.resolved → x ∈ f.resolved) := by
  unfold flushStep at h
  split at h <;> simp at h
  subst h
  refine ⟨rfl, ?_⟩
  intro x hx
  by_cases hsr : c.sendResolved = true
  · simpa [hsr] using hx
  · simp [hsr] at hx

/-- **No notification lists a suppressed alert** (C02 silenced, C03 inhibited, C15 time-muted): every alert a
    notification lists was handed over by the group's flush and none of the three stages withheld it. -/
theorem suppressed_never_notified (c : Cfg) (s : Nflog.State) (v : Verdicts) (tick wall : Int)
    (alerts : List (Nat × Bool)) (accept : Bool) (n : Notification)
    (h : (flushStep c s (toFlush v tick wall alerts accept)).sent = some n) (x : Nat)
    (hx : x ∈ n.firing ∨ x ∈ n.resolved) :
    (∃ r, (x, r) ∈ alerts) ∧ v.inhibited x = false ∧ v.silenced x = false ∧ v.timeMuted = false := by
  obtain ⟨hf, hr⟩ := sent_lists_flush c s _ n h
  have hmem : ∃ r, (x, r) ∈ surviving v alerts := by
    rcases hx with hx | hx
    · rw [hf] at hx
      simp only [toFlush, List.mem_map, List.mem_filter] at hx
      obtain ⟨a, ⟨ha, _⟩, rfl⟩ := hx
      exact ⟨a.2, ha⟩
    · have := hr x hx
      simp only [toFlush, List.mem_map, List.mem_filter] at this
      obtain ⟨a, ⟨ha, _⟩, rfl⟩ := this
      exact ⟨a.2, ha⟩
  obtain ⟨r, hr'⟩ := hmem
  obtain ⟨h1, h2, h3, h4⟩ := (surviving_iff v alerts (x, r)).mp hr'
  exact ⟨⟨r, h1⟩, h2, h4, h3⟩

/-- **An unsuppressed firing alert is listed by every notification that is sent** for the flush (the converse:
    the stages drop nothing else). -/
theorem unsuppressed_firing_listed (c : Cfg) (s : Nflog.State) (v : Verdicts) (tick wall : Int)
    (alerts : List (Nat × Bool)) (accept : Bool) (n : Notification)
    (h : (flushStep c s (toFlush v tick wall alerts accept)).sent = some n) (x : Nat)
    (hx : (x, false) ∈ alerts) (hi : v.inhibited x = false) (hs : v.silenced x = false) (ht : v.timeMuted = false) :
    x ∈ n.firing := by
  obtain ⟨hf, _⟩ := sent_lists_flush c s _ n h
  rw [hf]
  simp only [toFlush, List.mem_map, List.mem_filter]
  exact ⟨(x, false), ⟨(surviving_iff v alerts (x, false)).mpr ⟨hx, hi, ht, hs⟩, by simp⟩, rfl⟩

/-- a verdict change takes effect at the very next flush: the flush content is a function of the verdicts at THAT
    flush only (no state is carried by the stages) -/
theorem verdicts_only_at_flush (v v' : Verdicts) (alerts : List (Nat × Bool))
    (h : ∀ a ∈ alerts, reason v a.1 = reason v' a.1) : surviving v alerts = surviving v' alerts := by
  unfold surviving
  apply List.filter_congr
  intro a ha
  rw [h a ha]

example : surviving { inhibited := fun i => i == 1, silenced := fun i => i == 2, timeMuted := false }
    [(1, false), (2, false), (3, false), (4, true)] = [(3, false), (4, true)] := by decide

end AM.Suppress
