/-
  C02, continued — the matchers stored under an id, and the compiled-matcher
  index (`Silences.mi`).

  `Silencer.Mutes` never re-matches a cached id against the alert and
  `QMatches` evaluates the matchers compiled when the id was *indexed*; both
  are only right if the matchers stored under an id never change.  The C02
  theorems carry that as `msOf` ("matchers are a function of the id").  Here
  it stops being an assumption wherever the code itself guarantees it:

  * `set_keeps_matchers`, `expire_keeps_matchers` — through the API path
    (`Set`, `Expire`) a stored id keeps its matcher sets, whatever is posted:
    `canUpdate` admits an in-place update only for equal matcher sets, every
    other edit goes to a freshly drawn id.
  * `StMi` (the matcher index is the compiled form of the stored matchers) is
    preserved by Set / Expire / GC / reload unconditionally (`stMi_set`, …),
    and by `Merge` under the one hypothesis the code really relies on there —
    `stMi_mergeOne`: a merged version of a *known* id carries the matchers
    stored under that id (true whenever every instance of the cluster only
    produces versions through its own Set / Expire).  `Silences.Merge` does
    not check it and does not recompile: `merge_stale_index_counterexample`.
  * `api_run` / `mutes_eq_bruteforce_api` — for histories without merges the
    function `msOf` is *constructed* from the history (the matchers submitted
    with each drawn uuid), so `mutes_eq_bruteforce` holds with no assumption
    on matchers at all: only that the uuids drawn are pairwise distinct.
-/
import AM.Props.C02

namespace AM.Silence
open AM AM.AList

/-- the matcher index holds, for every stored id, the matcher sets stored in the silence -/
def StMi (s : Store) : Prop :=
  ∀ id m ms, lookup s.st id = some m → lookup s.mi id = some ms → ms = m.sil.sets

theorem stMi_empty : StMi {} := by intro id m ms h; simp at h

/-! ### `setSilence` -/

/-- a write of `m` that carries the matchers stored under its id changes no stored matchers
    and removes no id -/
theorem setSilence_sets (now : Int) (s : Store) (m : Mesh)
    (h : ∀ p, lookup s.st m.sil.id = some p → m.sil.sets = p.sil.sets) (id : String) (q : Mesh)
    (hq : lookup s.st id = some q) :
    ∃ q', lookup (setSilence now s m).1.st id = some q' ∧ q'.sil.sets = q.sil.sets := by
  rw [setSilence_lookup]
  by_cases hk : m.sil.id = id
  · subst hk
    simp only [if_true, hq, upd]
    by_cases hx : m.exp < now
    · simp [hx]
    · by_cases hp : q.sil.updated < m.sil.updated
      · simp [hx, hp]; exact h q hq
      · simp [hx, hp]
  · simp [hk, hq]

theorem stMi_setSilence (now : Int) (s : Store) (m : Mesh) (hs : StMi s)
    (h : ∀ p, lookup s.st m.sil.id = some p → m.sil.sets = p.sil.sets) : StMi (setSilence now s m).1 := by
  intro id x ms hx hms
  unfold setSilence at hx hms
  cases hk : mergeKind now s.st m with
  | refused => simp only [hk] at hx hms; exact hs id x ms hx hms
  | added =>
    simp only [hk, index] at hx hms
    rw [lookup_put] at hx hms
    by_cases hid : m.sil.id = id
    · simp [hid] at hx hms; rw [← hx, ← hms]
    · simp [hid] at hx hms; exact hs id x ms hx hms
  | updated =>
    obtain ⟨p, hp, _⟩ := mergeKind_updated now s.st m hk
    simp only [hk] at hx hms
    rw [lookup_put] at hx
    by_cases hid : m.sil.id = id
    · subst hid
      simp at hx
      rw [← hx, h p hp]
      exact hs m.sil.id p ms hp hms
    · simp [hid] at hx; exact hs id x ms hx hms

/-! ### Expire -/

theorem expiredVersion_sets (now : Int) (p x : Sil) (h : expiredVersion now p = some x) : x.sets = p.sets := by
  unfold expiredVersion at h
  cases hg : getState p now <;> simp [hg] at h <;> rw [← h]

theorem expireCore_sets (ret now : Int) (s : Store) (p : Mesh) (hl : lookup s.st p.sil.id = some p)
    (id : String) (q : Mesh) (hq : lookup s.st id = some q) :
    ∃ q', lookup (expireCore ret now s p.sil).1.st id = some q' ∧ q'.sil.sets = q.sil.sets := by
  unfold expireCore
  cases hx : expiredVersion now p.sil with
  | none => exact ⟨q, hq, rfl⟩
  | some x =>
    simp only
    apply setSilence_sets now s _ _ id q hq
    intro p' hp'
    have hid : (toMesh ret x).sil.id = p.sil.id := expiredVersion_id now p.sil x hx
    rw [hid, hl] at hp'
    injection hp' with hp'
    subst hp'
    exact expiredVersion_sets now p.sil x hx

theorem stMi_expireCore (ret now : Int) (s : Store) (p : Mesh) (hl : lookup s.st p.sil.id = some p) (hs : StMi s) :
    StMi (expireCore ret now s p.sil).1 := by
  unfold expireCore
  cases hx : expiredVersion now p.sil with
  | none => exact hs
  | some x =>
    simp only
    apply stMi_setSilence now s _ hs
    intro p' hp'
    have hid : (toMesh ret x).sil.id = p.sil.id := expiredVersion_id now p.sil x hx
    rw [hid, hl] at hp'
    injection hp' with hp'
    subst hp'
    exact expiredVersion_sets now p.sil x hx

/-- **`Expire` never changes the matchers stored under any id**, and keeps the matcher index
    in step. -/
theorem expire_keeps_matchers (ret now : Int) (s : Store) (id : String) (r : Store × List Mesh)
    (hi : IndexInv s) (h : expire ret now s id = .ok r) :
    (∀ k q, lookup s.st k = some q → ∃ q', lookup r.1.st k = some q' ∧ q'.sil.sets = q.sil.sets) ∧
    (StMi s → StMi r.1) := by
  unfold expire at h
  cases hl : lookup s.st id with
  | none => simp [hl] at h
  | some p =>
    simp [hl] at h
    subst h
    have hpid : p.sil.id = id := hi.keyId id p hl
    have hl' : lookup s.st p.sil.id = some p := by rw [hpid]; exact hl
    exact ⟨fun k q hq => expireCore_sets ret now s p hl' k q hq, stMi_expireCore ret now s p hl'⟩

/-! ### Set -/

/-- **`Set` never changes the matchers stored under an existing id** — whatever matcher sets
    are posted with that id: equal sets are the only ones `canUpdate` lets through to an in-place
    update; everything else is stored under the freshly drawn id.  (`newId` is not the id of a
    stored silence.)  The matcher index stays in step. -/
theorem set_keeps_matchers (env : Env) (ret : Int) (maxSil : Nat) (now : Int) (s : Store) (inp : SilIn)
    (newId : String) (big : Bool) (r : SetOk) (hi : IndexInv s) (hfresh : lookup s.st newId = none)
    (h : set env ret maxSil now s inp newId big = .ok r) :
    (∀ k q, lookup s.st k = some q → ∃ q', lookup r.store.st k = some q' ∧ q'.sil.sets = q.sil.sets) ∧
    (StMi s → StMi r.store) := by
  unfold set at h
  by_cases hv : (!validate env inp.sets (inp.start.getD now) inp.stop) = true
  · simp [hv] at h
  · by_cases hn : inp.id ≠ "" ∧ lookup s.st inp.id = none
    · simp [hv, hn] at h
    · simp only [hv, hn, if_false] at h
      by_cases hu : canUpdatePrev (lookup s.st inp.id) (silOfIn inp now) now = true
      · simp only [hu, if_true] at h
        unfold setUpdate at h
        by_cases hb : big = true
        · simp [hb] at h
        · simp only [hb] at h
          injection h with h; subst h
          simp only
          have hsame : ∀ p, lookup s.st (toMesh ret (silOfIn inp now)).sil.id = some p →
              (toMesh ret (silOfIn inp now)).sil.sets = p.sil.sets := by
            intro p hp
            have : (toMesh ret (silOfIn inp now)).sil.id = inp.id := rfl
            rw [this] at hp
            unfold canUpdatePrev at hu
            simp only [hp] at hu
            unfold canUpdate at hu
            simp only [Bool.and_eq_true, decide_eq_true_eq] at hu
            exact hu.1.symm
          exact ⟨fun k q hq => setSilence_sets now s _ hsame k q hq, fun hs => stMi_setSilence now s _ hs hsame⟩
      · simp only [hu] at h
        unfold setCreate at h
        by_cases hlim : maxSil > 0 ∧ s.st.length + 1 > maxSil
        · simp [hlim] at h
        · by_cases hb : big = true
          · simp [hlim, hb] at h
          · simp only [hlim, hb, if_false] at h
            injection h with h; subst h
            simp only
            -- expire the replaced silence (if any) …
            have h1 : (∀ k q, lookup s.st k = some q →
                  ∃ q', lookup (expirePrev ret now s (lookup s.st inp.id)).1.st k = some q' ∧ q'.sil.sets = q.sil.sets) ∧
                (StMi s → StMi (expirePrev ret now s (lookup s.st inp.id)).1) ∧
                lookup (expirePrev ret now s (lookup s.st inp.id)).1.st newId = none := by
              cases hl : lookup s.st inp.id with
              | none => exact ⟨fun k q hq => ⟨q, hq, rfl⟩, id, hfresh⟩
              | some p =>
                have hpid : p.sil.id = inp.id := hi.keyId inp.id p hl
                have hl' : lookup s.st p.sil.id = some p := by rw [hpid]; exact hl
                refine ⟨fun k q hq => expireCore_sets ret now s p hl' k q hq, stMi_expireCore ret now s p hl', ?_⟩
                simp only [expirePrev]
                rw [expireCore_lookup_ne ret now s p.sil newId]
                · exact hfresh
                · rw [hpid]; intro he; rw [he, hfresh] at hl; cases hl
            obtain ⟨hk1, hs1, hf1⟩ := h1
            -- … then store the new version under the drawn id, which no stored silence has
            have hsame : ∀ p, lookup (expirePrev ret now s (lookup s.st inp.id)).1.st
                (toMesh ret (raised (silOfIn inp now) newId now)).sil.id = some p →
                (toMesh ret (raised (silOfIn inp now) newId now)).sil.sets = p.sil.sets := by
              intro p hp
              have : (toMesh ret (raised (silOfIn inp now) newId now)).sil.id = newId := rfl
              rw [this, hf1] at hp
              cases hp
            refine ⟨?_, fun hs => stMi_setSilence now _ _ (hs1 hs) hsame⟩
            intro k q hq
            obtain ⟨q1, hq1, hs1'⟩ := hk1 k q hq
            obtain ⟨q2, hq2, hs2'⟩ := setSilence_sets now _ _ hsame k q1 hq1
            exact ⟨q2, hq2, by rw [hs2', hs1']⟩

/-! ### GC, reload -/

theorem stMi_gc (now : Int) (s : Store) (hi : IndexInv s) (hs : StMi s) : StMi (gc now s).1 := by
  intro id x ms hx hms
  rw [lookup_gc now s hi] at hx
  simp only [gc] at hms
  rw [lookup_filterVals _ _ hi.nodupMi] at hms
  cases hl : lookup s.st id with
  | none => simp [hl] at hx
  | some m =>
    simp only [hl] at hx
    split at hx
    · cases hx
    · injection hx with hx
      subst hx
      cases hmi : lookup s.mi id with
      | none => simp [hmi] at hms
      | some y =>
        simp only [hmi] at hms
        split at hms
        · injection hms with hms; rw [← hms]; exact hs id m y hl hmi
        · cases hms

theorem stMi_reload (s : Store) (hi : IndexInv s) : StMi (reload s) := by
  intro id x ms hx hms
  have : lookup (reload s).mi id = (lookup (reload s).st id).map (fun m => m.sil.sets) := by
    unfold reload
    exact lookup_mapVals (fun _ (m : Mesh) => m.sil.sets) _ id
  rw [this, hx] at hms
  simp at hms
  exact hms.symm

/-! ### Merge: what the code relies on -/

/-- One iteration of `Silences.Merge` keeps the matcher index in step **provided** a version
    that updates a known id carries the matchers stored under that id.  (Not needed when the
    update revives the silence under the repaired discipline: `reindexSilence` recompiles.) -/
theorem stMi_mergeOne (fix : Bool) (now : Int) (s : Store) (e : Mesh) (hs : StMi s)
    (h : ∀ p, lookup s.st e.sil.id = some p → e.sil.sets = p.sil.sets) : StMi (mergeOne fix now s e).1 := by
  intro id x ms hx hms
  unfold mergeOne at hx hms
  cases hk : mergeKind now s.st e with
  | refused => simp only [hk] at hx hms; exact hs id x ms hx hms
  | added =>
    simp only [hk, index] at hx hms
    rw [lookup_put] at hx hms
    by_cases hid : e.sil.id = id
    · simp [hid] at hx hms; rw [← hx, ← hms]
    · simp [hid] at hx hms; exact hs id x ms hx hms
  | updated =>
    obtain ⟨p, hp, _⟩ := mergeKind_updated now s.st e hk
    simp only [hk, hp] at hx hms
    split at hx
    · -- re-indexed: recompiled
      rename_i hrev
      simp only [hrev, if_true, reindex, index] at hms
      simp only [reindex, index] at hx
      rw [lookup_put] at hx hms
      by_cases hid : e.sil.id = id
      · simp [hid] at hx hms; rw [← hx, ← hms]
      · simp [hid] at hx hms; exact hs id x ms hx hms
    · rename_i hrev
      simp only [hrev] at hms
      simp only at hx
      rw [lookup_put] at hx
      by_cases hid : e.sil.id = id
      · subst hid
        simp at hx
        rw [← hx, h p hp]
        exact hs e.sil.id p ms hp (by simpa using hms)
      · simp [hid] at hx; exact hs id x ms hx (by simpa using hms)

private def envM : Env := { re := fun _ _ => false, reOk := fun _ => true, nameOk := fun n => n ≠ "" }
private def inM : SilIn := { id := "", sets := [[⟨.eq, "a", "1"⟩]], start := some 0, stop := some 10, comment := "" }
/-- a version of the same id whose only difference is the operator: `a="1"` → `a!="1"` (with a
    second matcher so that the set stays valid) -/
private def flipM : Mesh :=
  { sil := { id := "u", sets := [[⟨.neq, "a", "1"⟩]], start := 0, stop := 10, updated := 2, comment := "" }, exp := 10 }
private def storeM : Store :=
  ([Op.set 0 inM "u" false, .merge 3 false [flipM]].foldl (Sys.step true envM 0 0) {}).store

/-- **What `Silences.Merge` does when a peer sends a known id with other matchers**: the new
    version is stored (and shown by `Query`), the compiled matchers stay those of the old one —
    `QMatches`, hence `Mutes`, keep matching `a="1"` although the stored silence says `a!="1"`.
    `StMi` fails; the mute verdict is not the direct evaluation of the stored silences.  This is
    the hypothesis of `stMi_mergeOne`, and the reason `Op.Ok` constrains merged versions. -/
theorem merge_stale_index_counterexample :
    (lookup storeM.st "u").map (·.sil.sets) = some [[⟨.neq, "a", "1"⟩]] ∧
    lookup storeM.mi "u" = some [[⟨.eq, "a", "1"⟩]] ∧
    activeMatching envM storeM 4 [("a", "1")] "u" = false ∧
    (mutes envM storeM [] 4 [("a", "1")]).muted = true ∧
    activeMatching envM storeM 4 [("a", "2")] "u" = true ∧
    (mutes envM storeM [] 4 [("a", "2")]).muted = false := by
  decide

/-! ### histories without merges: `msOf` is constructed, not assumed -/

theorem setSilence_ids (now : Int) (s : Store) (m : Mesh) (id : String)
    (h : (lookup (setSilence now s m).1.st id).isSome = true) : (lookup s.st id).isSome = true ∨ id = m.sil.id := by
  rw [setSilence_lookup] at h
  by_cases hk : m.sil.id = id
  · exact Or.inr hk.symm
  · simp [hk] at h; exact Or.inl (by simp [h])

theorem expireCore_ids (ret now : Int) (s : Store) (p : Mesh) (hl : lookup s.st p.sil.id = some p) (id : String)
    (h : (lookup (expireCore ret now s p.sil).1.st id).isSome = true) : (lookup s.st id).isSome = true := by
  by_cases hk : p.sil.id = id
  · subst hk; simp [hl]
  · rw [expireCore_lookup_ne ret now s p.sil id hk] at h; exact h

/-- `Set` stores nothing under an id that was neither stored before nor just drawn -/
theorem set_ids (env : Env) (ret : Int) (maxSil : Nat) (now : Int) (s : Store) (inp : SilIn)
    (newId : String) (big : Bool) (r : SetOk) (hi : IndexInv s)
    (h : set env ret maxSil now s inp newId big = .ok r) (id : String)
    (hid : (lookup r.store.st id).isSome = true) : (lookup s.st id).isSome = true ∨ id = newId := by
  unfold set at h
  by_cases hv : (!validate env inp.sets (inp.start.getD now) inp.stop) = true
  · simp [hv] at h
  · by_cases hn : inp.id ≠ "" ∧ lookup s.st inp.id = none
    · simp [hv, hn] at h
    · simp only [hv, hn, if_false] at h
      by_cases hu : canUpdatePrev (lookup s.st inp.id) (silOfIn inp now) now = true
      · simp only [hu, if_true] at h
        unfold setUpdate at h
        by_cases hb : big = true
        · simp [hb] at h
        · simp only [hb] at h
          injection h with h; subst h
          rcases setSilence_ids now s _ id hid with h1 | h1
          · exact Or.inl h1
          · left
            have : (toMesh ret (silOfIn inp now)).sil.id = inp.id := rfl
            rw [h1, this]
            unfold canUpdatePrev at hu
            cases hl : lookup s.st inp.id with
            | none => simp [hl] at hu
            | some p => simp
      · simp only [hu] at h
        unfold setCreate at h
        by_cases hlim : maxSil > 0 ∧ s.st.length + 1 > maxSil
        · simp [hlim] at h
        · by_cases hb : big = true
          · simp [hlim, hb] at h
          · simp only [hlim, hb, if_false] at h
            injection h with h; subst h
            simp only at hid
            rcases setSilence_ids now _ _ id hid with h1 | h1
            · left
              cases hl : lookup s.st inp.id with
              | none => rw [hl] at h1; exact h1
              | some p =>
                rw [hl] at h1
                have hpid : p.sil.id = inp.id := hi.keyId inp.id p hl
                exact expireCore_ids ret now s p (by rw [hpid]; exact hl) id h1
            · exact Or.inr h1

theorem expire_ids (ret now : Int) (s : Store) (k : String) (r : Store × List Mesh) (hi : IndexInv s)
    (h : expire ret now s k = .ok r) (id : String) (hid : (lookup r.1.st id).isSome = true) :
    (lookup s.st id).isSome = true := by
  unfold expire at h
  cases hl : lookup s.st k with
  | none => simp [hl] at h
  | some p =>
    simp [hl] at h
    subst h
    have hpid : p.sil.id = k := hi.keyId k p hl
    exact expireCore_ids ret now s p (by rw [hpid]; exact hl) id hid

/-- the uuids drawn by the `Set`s of a history, each with the matcher sets submitted with it -/
def drawnSets : List Op → AList String MatcherSets
  | [] => []
  | .set _ inp newId _ :: rest => (newId, inp.sets) :: drawnSets rest
  | _ :: rest => drawnSets rest

/-- the matcher sets of an id, read off the history -/
def msOfOps (ops : List Op) (id : String) : MatcherSets := (lookup (drawnSets ops) id).getD []

def Op.isMerge : Op → Bool
  | .merge _ _ _ => true
  | _ => false

/-- time does not go backwards (the timing part of `Run`) -/
def Timed : Int → List Op → Prop
  | _, [] => True
  | now, op :: rest => (∀ t, op.time = some t → now ≤ t) ∧ Timed ((op.time).getD now) rest

theorem run_of_fresh (msOf : String → MatcherSets) (env : Env) (ret : Int) (maxSil : Nat) (rest : List Op) :
    ∀ (D : List String) (σ : Sys) (now : Int), IndexInv σ.store →
      (∀ id, (lookup σ.store.st id).isSome = true → id ∈ D) →
      (∀ k ms, lookup (drawnSets rest) k = some ms → k ∉ D) → NoDupKeys (drawnSets rest) →
      (∀ k ms, lookup (drawnSets rest) k = some ms → msOf k = ms) →
      (∀ op ∈ rest, op.isMerge = false) → Timed now rest → Run msOf env ret maxSil σ now rest := by
  induction rest with
  | nil => intros; trivial
  | cons op rest ih =>
    intro D σ now hi hD hfr hnd hms hnm ht
    obtain ⟨ht1, ht2⟩ := ht
    have hnm' : ∀ o ∈ rest, o.isMerge = false := fun o ho => hnm o (List.mem_cons_of_mem _ ho)
    cases op with
    | set t inp newId big =>
      have hnd' : lookup (drawnSets rest) newId = none ∧ NoDupKeys (drawnSets rest) := hnd
      have hnew : newId ∉ D := hfr newId inp.sets (by simp [drawnSets])
      have hfresh : lookup σ.store.st newId = none := by
        cases hl : lookup σ.store.st newId with
        | none => rfl
        | some m => exact absurd (hD newId (by simp [hl])) hnew
      refine ⟨⟨(hms newId inp.sets (by simp [drawnSets])).symm, hfresh⟩, ht1, ?_⟩
      apply ih (newId :: D) _ _ _ _ _ hnd'.2 _ hnm' ht2
      · simp only [Sys.step]
        cases hs : set env ret maxSil t σ.store inp newId big with
        | error _ => exact hi
        | ok r => exact indexInv_set env ret maxSil t σ.store inp newId big r hi hs
      · intro id hid
        simp only [Sys.step] at hid
        cases hs : set env ret maxSil t σ.store inp newId big with
        | error _ => rw [hs] at hid; exact List.mem_cons_of_mem _ (hD id hid)
        | ok r =>
          rw [hs] at hid
          rcases set_ids env ret maxSil t σ.store inp newId big r hi hs id hid with h | h
          · exact List.mem_cons_of_mem _ (hD id h)
          · rw [h]; exact List.mem_cons_self
      · intro k ms hk hmem
        rcases List.mem_cons.mp hmem with h | h
        · rw [h, hnd'.1] at hk; cases hk
        · refine hfr k ms ?_ h
          simp only [drawnSets, lookup_cons]
          by_cases hkk : newId = k
          · rw [← hkk, hnd'.1] at hk; cases hk
          · simp [hkk, hk]
      · intro k ms hk
        apply hms k ms
        simp only [drawnSets, lookup_cons]
        by_cases hkk : newId = k
        · rw [← hkk, hnd'.1] at hk; cases hk
        · simp [hkk, hk]
    | expire t id0 =>
      refine ⟨trivial, ht1, ?_⟩
      apply ih D _ _ _ _ hfr hnd hms hnm' ht2
      · simp only [Sys.step]
        cases hs : expire ret t σ.store id0 with
        | error _ => exact hi
        | ok r => exact indexInv_expire ret t σ.store id0 r hi hs
      · intro id hid
        simp only [Sys.step] at hid
        cases hs : expire ret t σ.store id0 with
        | error _ => rw [hs] at hid; exact hD id hid
        | ok r => rw [hs] at hid; exact hD id (expire_ids ret t σ.store id0 r hi hs id hid)
    | merge t ov b => exact absurd (hnm _ List.mem_cons_self) (by simp [Op.isMerge])
    | gc t =>
      refine ⟨trivial, ht1, ?_⟩
      apply ih D _ _ (indexInv_gc t σ.store hi) _ hfr hnd hms hnm' ht2
      intro id hid
      simp only [Sys.step] at hid
      rw [lookup_gc t σ.store hi] at hid
      apply hD id
      cases hl : lookup σ.store.st id with
      | none => simp [hl] at hid
      | some m => simp
    | postGC fps => exact ⟨trivial, ht1, ih D _ _ hi hD hfr hnd hms hnm' ht2⟩
    | reload =>
      refine ⟨trivial, ht1, ?_⟩
      apply ih D _ _ (indexInv_reload σ.store) _ hfr hnd hms hnm' ht2
      intro id hid
      simp only [Sys.step] at hid
      rw [lookup_reload σ.store hi] at hid
      exact hD id hid
    | mutes t ls => exact ⟨trivial, ht1, ih D _ _ hi hD hfr hnd hms hnm' ht2⟩

/-- **For a history without merges the side conditions of `Run` are not assumptions**: with
    `msOf` read off the history itself, `Run` holds as soon as the uuids drawn by its `Set`s are
    pairwise distinct and time does not go backwards. -/
theorem api_run (env : Env) (ret : Int) (maxSil : Nat) (ops : List Op) (t0 : Int)
    (hnm : ∀ op ∈ ops, op.isMerge = false) (hnd : NoDupKeys (drawnSets ops)) (ht : Timed t0 ops) :
    Run (msOfOps ops) env ret maxSil {} t0 ops := by
  apply run_of_fresh (msOfOps ops) env ret maxSil ops [] {} t0 indexInv_empty _ _ hnd _ hnm ht
  · intro id h; simp at h
  · intro k ms _ h; simp at h
  · intro k ms hk; unfold msOfOps; rw [hk]; rfl

/-- **`mutes_eq_bruteforce` for API-only histories, with no assumption on matchers.**  After any
    history of Set (create / any edit) / Expire / GC / alert GC / reload / Mutes whose drawn uuids
    are pairwise distinct, `Mutes` reports muted iff some stored silence is active and its
    *stored* matchers match, and `silencedBy` is exactly the set of those silences. -/
theorem mutes_eq_bruteforce_api (env : Env) (ret : Int) (maxSil : Nat) (ops : List Op) (t0 : Int)
    (hnm : ∀ op ∈ ops, op.isMerge = false) (hnd : NoDupKeys (drawnSets ops)) (ht : Timed t0 ops)
    (now : Int) (hnow : lastTime t0 ops ≤ now) (ls : LabelSet) :
    let σ := ops.foldl (Sys.step true env ret maxSil) {}
    let r := mutes env σ.store σ.cache now ls
    (r.muted = true ↔ ∃ id, activeMatching env σ.store now ls id = true) ∧
    (∀ id, id ∈ r.silencedBy ↔ activeMatching env σ.store now ls id = true) :=
  mutes_eq_bruteforce (msOfOps ops) env ret maxSil ops t0 (api_run env ret maxSil ops t0 hnm hnd ht) now hnow ls

/-- non-vacuity: a real history satisfies the hypotheses of `mutes_eq_bruteforce_api` (an edit that
    flips an operator included: it is stored under the second uuid) -/
example : (∀ op ∈ [Op.set 0 inM "u" false, .mutes 1 [("a", "1")], .set 2 { inM with id := "u", sets := [[⟨.neq, "a", "1"⟩, ⟨.eq, "b", "x"⟩]] } "v" false, .gc 3],
      op.isMerge = false) ∧
    NoDupKeys (drawnSets [Op.set 0 inM "u" false, .mutes 1 [("a", "1")], .set 2 { inM with id := "u", sets := [[⟨.neq, "a", "1"⟩, ⟨.eq, "b", "x"⟩]] } "v" false, .gc 3]) ∧
    Timed 0 [Op.set 0 inM "u" false, .mutes 1 [("a", "1")], .set 2 { inM with id := "u", sets := [[⟨.neq, "a", "1"⟩, ⟨.eq, "b", "x"⟩]] } "v" false, .gc 3] := by
  refine ⟨by decide, ⟨by decide, by decide, trivial⟩, ?_⟩
  refine ⟨?_, ?_, ?_, ?_, trivial⟩ <;> intro t h <;> simp [Op.time] at h ⊢ <;> omega

end AM.Silence
