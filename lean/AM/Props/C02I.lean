/-
  C02, continued — `Silencer.Mutes` as the code really runs it.

  One call of `Mutes` is not atomic: it reads `Silences.Version()`, re-queries
  the cached ids, scans what was indexed since the cached version and writes
  the cache — four separately locked accesses, with the store free to change
  between them (API requests, gossip merges, GC).  `mutesI` (AM.Model.Silencer)
  is that call with the store being `s0`, `s1`, `s2` at the three reads and
  `s3` at the cache write; any sequence of store operations is a `Step`
  (AM.Lemmas.SilencerInv), so the theorems below quantify over arbitrary
  interleavings.

  * `mutesI_atomic` — without interleaving `mutesI` is `mutes`.
  * `mutesI_cacheInv` — **whatever happens in between, the cache entry a call
    leaves behind satisfies `CacheInv` with respect to the *final* store**:
    the cached version never runs ahead of what was examined.  Hence
    `mutesI_next_call_exact`: the next call is exactly the brute-force verdict.
  * `mutes_interleaved_bracket` — the answer of the interleaved call itself:
    every id reported is stored, active and matching at the re-query or at the
    scan (`sound`); every id that is stored, active and matching at all three
    reads is reported (`complete`).
  * `mutesI_linearizable` — when the interleaved operations never end an
    active silence at the call's own instant (`KeepsActive`: true of `Expire`
    and of `Set` — `expire_keepsActive`, `set_keepsActive` — at a frozen
    clock), the verdict is the brute-force verdict on the store as it was at
    the version read, or as it was at the scan.  For arbitrary merges
    (a peer may re-date a silence to any instant) only the bracket holds —
    `merge_not_linearizable_example`.
  * `interleaved_update_lost_counterexample` — the discipline of the seeded
    change (`late = true`: cache version taken from the re-query of the cached
    ids) breaks `mutesI_cacheInv`: a silence added between the version read and
    that query is never matched against the alert.
-/
import AM.Props.C02

namespace AM.Silence
open AM AM.AList

/-! ### shape of an interleaved call -/

/-- the since-scan of an interleaved call -/
def newI (env : Env) (s2 : Store) (now : Int) (ce : CacheEntry) (ls : LabelSet) (u : Bool) : List Sil :=
  if u then [] else query env s2 now { scan := .since ce.version, states := activeOrPending, ls := some ls }

def candI (env : Env) (s1 s2 : Store) (now : Int) (ce : CacheEntry) (ls : LabelSet) (u : Bool) : List Sil :=
  oldSils env s1 now ce ++ newI env s2 now ce ls u

/-- the version an interleaved call writes (the code's discipline) -/
def verI (s2 : Store) (ce : CacheEntry) (u : Bool) : Nat := if u then ce.version else s2.version

theorem mOld_false (env : Env) (s : Store) (now : Int) (k : MCall) :
    mOld false env s now k = { k with old := (if k.ce.ids.isEmpty then k.old else
      query env s now { scan := .ids k.ce.ids, states := activeOrPending }) } := by
  unfold mOld
  by_cases h : k.ce.ids.isEmpty = true <;> simp [h]

theorem mutesI_shape (env : Env) (now : Int) (ls : LabelSet) (s0 s1 s2 : Store) (c c' : Cache) :
    let ce := cacheGet c ls
    let u := decide (ce.version = s0.version)
    let all := dedupSils (candI env s1 s2 now ce ls u) []
    let r := mutesI false env now ls s0 s1 s2 c c'
    r.silencedBy = activeIdsOf now all ∧
    r.muted = !r.silencedBy.isEmpty ∧
    ((r.cache = c' ∧ u = true ∧ ce.ids = []) ∨
     r.cache = put c' ls (CacheEntry.mk (verI s2 ce u) (liveIdsOf now all))) := by
  intro ce u all r
  have hr : r = mutesI false env now ls s0 s1 s2 c c' := rfl
  unfold mutesI mBegin MCall.fast at hr
  simp only at hr
  by_cases hf : (decide ((cacheGet c ls).version = s0.version) && (cacheGet c ls).ids.isEmpty) = true
  · have h1 : u = true := by simp at hf; simp [u, ce, hf.1]
    have h2 : ce.ids = [] := by simp at hf; exact hf.2
    have hcand : candI env s1 s2 now ce ls u = [] := by
      unfold candI oldSils newI; simp [h1, h2]
    simp only [hf, if_true] at hr
    have hall : all = [] := by simp only [all]; rw [hcand]; rfl
    rw [hr, hall]
    exact ⟨by simp [activeIdsOf], by simp, Or.inl ⟨rfl, h1, h2⟩⟩
  · simp only [hf] at hr
    -- the gathered lists
    have hk : mNew env s2 now ls (mOld false env s1 now
        { ce := cacheGet c ls, upToDate := decide ((cacheGet c ls).version = s0.version), ver := (cacheGet c ls).version }) =
        { ce := ce, upToDate := u, old := oldSils env s1 now ce, new := newI env s2 now ce ls u, ver := verI s2 ce u } := by
      rw [mOld_false]
      unfold mNew oldSils newI verI
      by_cases hu : u = true
      · have : decide ((cacheGet c ls).version = s0.version) = true := hu
        by_cases he : (cacheGet c ls).ids.isEmpty = true <;> simp [this, he, hu, ce]
      · have hu' : u = false := by simpa using hu
        have : decide ((cacheGet c ls).version = s0.version) = false := hu'
        by_cases he : (cacheGet c ls).ids.isEmpty = true <;> simp [this, he, hu', ce]
    rw [hk] at hr
    unfold mEnd at hr
    simp only at hr
    by_cases he : (oldSils env s1 now ce ++ newI env s2 now ce ls u).isEmpty = true
    · have hcand : candI env s1 s2 now ce ls u = [] := by unfold candI; simpa using he
      simp only [he, if_true] at hr
      have hall : all = [] := by simp only [all]; rw [hcand]; rfl
      rw [hr, hall]
      exact ⟨by simp [activeIdsOf], by simp, Or.inr (by simp [liveIdsOf])⟩
    · simp only [he] at hr
      rw [hr]
      exact ⟨rfl, rfl, Or.inr rfl⟩

/-- **Without interleaving the micro-step call is the atomic call.** -/
theorem mutesI_atomic (env : Env) (s : Store) (c : Cache) (now : Int) (ls : LabelSet) :
    mutesI false env now ls s s s c c = mutes env s c now ls := by
  unfold mutesI mutes mBegin MCall.fast
  simp only
  by_cases hf : (decide ((cacheGet c ls).version = s.version) && (cacheGet c ls).ids.isEmpty) = true
  · simp only [hf, if_true]
  · simp only [hf]
    rw [mOld_false]
    unfold mEnd mNew oldSils newSils newVersion
    by_cases hv : (cacheGet c ls).version = s.version <;>
      by_cases he : (cacheGet c ls).ids.isEmpty = true <;> simp [hv, he]

/-! ### what the two queries of an interleaved call return -/

theorem mem_newI (env : Env) (s2 : Store) (now : Int) (ce : CacheEntry) (ls : LabelSet) (u : Bool)
    (hi : IndexInv s2) (x : Sil) :
    x ∈ newI env s2 now ce ls u ↔
      u = false ∧ Stored s2 x ∧ (∃ v', ce.version < v' ∧ (v', x.id) ∈ s2.vi) ∧ live x now ∧
        ∃ ms, lookup s2.mi x.id = some ms ∧ matchesSets env.re ms ls = true := by
  unfold newI
  cases u with
  | true => simp
  | false =>
    simp only [Bool.false_eq_true, if_false, true_and]
    rw [mem_query env s2 now _ hi x]
    simp only [inScan, passes, activeOrPending, Bool.and_eq_true, contains_ap, Stored, live]
    constructor
    · rintro ⟨h1, h2, h3, h4⟩
      refine ⟨h1, h2, h3, ?_⟩
      cases hm : lookup s2.mi x.id with
      | none => simp [hm] at h4
      | some ms => simp [hm] at h4; exact ⟨ms, rfl, h4⟩
    · rintro ⟨h1, h2, h3, ms, hm, h4⟩
      exact ⟨h1, h2, h3, by simp [hm, h4]⟩

section interleaved
variable (msOf : String → MatcherSets) (env : Env) (now : Int) (ls : LabelSet)
variable (s0 s1 s2 : Store) (c : Cache)
variable (hi1 : IndexInv s1) (hi2 : IndexInv s2) (hm1 : MiInv msOf s1) (hm2 : MiInv msOf s2)
variable (hc : CacheInv msOf env s0 c now)

include hi1 hi2 hm2 hc in
/-- every candidate of an interleaved call is live, matches the alert, and is stored at the
    re-query or at the scan -/
theorem candI_sound (u : Bool) (x : Sil) (h : x ∈ candI env s1 s2 now (cacheGet c ls) ls u) :
    live x now ∧ matchesSets env.re (msOf x.id) ls = true ∧ (Stored s1 x ∨ Stored s2 x) := by
  unfold candI at h
  rcases List.mem_append.mp h with h | h
  · obtain ⟨h1, h2, h3⟩ := (mem_oldSils env s1 now _ hi1 x).mp h
    exact ⟨h3, (hc.sound ls).2 x.id h2, Or.inl h1⟩
  · obtain ⟨_, h1, _, h3, ms, hms, h4⟩ := (mem_newI env s2 now _ ls u hi2 x).mp h
    have := hm2.mi x.id ms hms
    subst this
    exact ⟨h3, h4, Or.inr h1⟩

theorem mem_liveIdsOf (now : Int) (all : List Sil) (id : String) :
    id ∈ liveIdsOf now all ↔ ∃ x, x ∈ all ∧ live x now ∧ x.id = id := by
  unfold liveIdsOf live
  simp only [List.mem_map, List.mem_filter, decide_eq_true_eq]
  constructor
  · rintro ⟨x, ⟨h1, h2⟩, h3⟩; exact ⟨x, h1, h2, h3⟩
  · rintro ⟨x, h1, h2, h3⟩; exact ⟨x, ⟨h1, h2⟩, h3⟩

theorem mem_activeIdsOf (now : Int) (all : List Sil) (id : String) :
    id ∈ activeIdsOf now all ↔ ∃ x, x ∈ all ∧ getState x now = .active ∧ x.id = id := by
  unfold activeIdsOf
  simp only [List.mem_map, List.mem_filter, decide_eq_true_eq]
  constructor
  · rintro ⟨x, ⟨h1, h2⟩, h3⟩; exact ⟨x, h1, h2, h3⟩
  · rintro ⟨x, h1, h2, h3⟩; exact ⟨x, ⟨h1, h2⟩, h3⟩

include hi1 hi2 hm2 hc in
/-- a candidate's id ends up in the cached id list -/
theorem candI_cached (u : Bool) (x : Sil) (h : x ∈ candI env s1 s2 now (cacheGet c ls) ls u) :
    x.id ∈ liveIdsOf now (dedupSils (candI env s1 s2 now (cacheGet c ls) ls u) []) := by
  obtain ⟨y, hy, hyid⟩ := dedup_covers _ [] x h (by simp)
  rw [mem_liveIdsOf]
  exact ⟨y, hy, (candI_sound msOf env now ls s0 s1 s2 c hi1 hi2 hm2 hc u y (mem_dedup_sub _ _ y hy)).1, hyid⟩

/-- **The cache an interleaved call leaves behind is valid for the final store.**  `s0`, `s1`,
    `s2` are the store at the version read, at the re-query of the cached ids and at the
    since-scan, `s3` at the cache write; between them anything that is a `Step` may have
    happened (any sequence of Set / Expire / Merge / GC, `step_trans`); `c'` is the cache at the
    write (other calls may have written other entries meanwhile). -/
theorem mutesI_cacheInv (s3 : Store) (c' : Cache)
    (hi1 : IndexInv s1) (hi2 : IndexInv s2) (hm2 : MiInv msOf s2)
    (h01 : Step now s0 s1) (h12 : Step now s1 s2) (h23 : Step now s2 s3)
    (hc : CacheInv msOf env s0 c now) (hc' : CacheInv msOf env s3 c' now) :
    CacheInv msOf env s3 (mutesI false env now ls s0 s1 s2 c c').cache now := by
  obtain ⟨_, _, hcache⟩ := mutesI_shape env now ls s0 s1 s2 c c'
  rcases hcache with ⟨h, _, _⟩ | h
  · rw [h]; exact hc'
  rw [h]
  -- abbreviations
  have hc1 : CacheInv msOf env s1 c now := cacheInv_step msOf env s0 s1 c now hc h01
  have hc2 : CacheInv msOf env s2 c now := cacheInv_step msOf env s1 s2 c now hc1 h12
  have hv0 : (cacheGet c ls).version ≤ s0.version := (hc.sound ls).1
  have hv01 := h01.ver
  have hv12 := h12.ver
  have hv23 := h23.ver
  constructor
  · intro ls'
    rw [cacheGet_put]
    by_cases hls : ls = ls'
    · subst hls
      simp only [if_true]
      refine ⟨?_, ?_⟩
      · unfold verI
        split <;> omega
      · intro id hid
        obtain ⟨x, hx, _, rfl⟩ := (mem_liveIdsOf now _ id).mp hid
        exact (candI_sound msOf env now ls s0 s1 s2 c hi1 hi2 hm2 hc _ x (mem_dedup_sub _ _ x hx)).2.1
    · simp only [hls, if_false]; exact hc'.sound ls'
  · intro ls' id m3 hl hmatch hv
    rw [cacheGet_put]
    by_cases hls : ls = ls'
    · subst hls
      simp only [if_true]
      -- where does the live silence `id` of the final store come from?
      rcases h23.src id m3 hl hv with ⟨m2, hl2, hv2, hraise⟩ | ⟨v', hv', hmem⟩
      · -- it was in `s2`; whatever sits after the cached version in `s2.vi` is either scanned
        -- (cache not up to date) or still after the version written (cache up to date)
        have hafter : ∀ v, (v, id) ∈ s2.vi → (cacheGet c ls).version < v →
            id ∈ liveIdsOf now (dedupSils (candI env s1 s2 now (cacheGet c ls) ls
                (decide ((cacheGet c ls).version = s0.version))) []) ∨
            ∃ v', (v', id) ∈ s3.vi ∧ verI s2 (cacheGet c ls) (decide ((cacheGet c ls).version = s0.version)) < v' := by
          intro v hmv hlt
          by_cases hu : (cacheGet c ls).version = s0.version
          · right
            obtain ⟨v', hle, hm'⟩ := hraise v hmv
            refine ⟨v', hm', ?_⟩
            unfold verI; simp [hu]; omega
          · left
            have hid : m2.sil.id = id := hi2.keyId id m2 hl2
            have hin : m2.sil ∈ candI env s1 s2 now (cacheGet c ls) ls (decide ((cacheGet c ls).version = s0.version)) := by
              unfold candI
              apply List.mem_append_right
              rw [mem_newI env s2 now _ ls _ hi2]
              refine ⟨by simp [hu], ⟨m2, by rw [hid]; exact hl2, rfl⟩, ⟨v, hlt, by rw [hid]; exact hmv⟩, hv2, ?_⟩
              have hsome := hi2.miHas id (by simp [hl2])
              cases hmi : lookup s2.mi id with
              | none => simp [hmi] at hsome
              | some ms =>
                have := hm2.mi id ms hmi
                subst this
                exact ⟨msOf id, by rw [hid]; exact hmi, hmatch⟩
            have := candI_cached msOf env now ls s0 s1 s2 c hi1 hi2 hm2 hc _ m2.sil hin
            rw [hid] at this
            exact this
        rcases hc2.complete ls id m2 hl2 hmatch hv2 with hin | ⟨v, hmv, hlt⟩
        · -- a cached id: re-queried on `s1`
          rcases h12.src id m2 hl2 hv2 with ⟨m1, hl1, hv1, _⟩ | ⟨v', hv', hmem⟩
          · left
            have hid : m1.sil.id = id := hi1.keyId id m1 hl1
            have hin1 : m1.sil ∈ candI env s1 s2 now (cacheGet c ls) ls (decide ((cacheGet c ls).version = s0.version)) := by
              unfold candI
              apply List.mem_append_left
              rw [mem_oldSils env s1 now _ hi1]
              exact ⟨⟨m1, by rw [hid]; exact hl1, rfl⟩, by rw [hid]; exact hin, hv1⟩
            have := candI_cached msOf env now ls s0 s1 s2 c hi1 hi2 hm2 hc _ m1.sil hin1
            rw [hid] at this
            exact this
          · -- (re-)indexed between the re-query and the scan
            exact hafter v' hmem (by omega)
        · exact hafter v hmv hlt
      · right
        refine ⟨v', hmem, ?_⟩
        unfold verI
        split <;> omega
    · simp only [hls, if_false]; exact hc'.complete ls' id m3 hl hmatch hv

/-- **The answer of an interleaved call is bracketed by the store states it saw.**
    `sound`: every id reported in `silencedBy` is a stored, active silence whose matchers match,
    at the re-query (`s1`) or at the scan (`s2`).  `complete`: every silence that is stored,
    active and matching at the version read, at the re-query and at the scan is reported. -/
theorem mutes_interleaved_bracket (c' : Cache)
    (hi0 : IndexInv s0) (hi1 : IndexInv s1) (hi2 : IndexInv s2)
    (hm0 : MiInv msOf s0) (hm1 : MiInv msOf s1) (hm2 : MiInv msOf s2)
    (h01 : Step now s0 s1) (h12 : Step now s1 s2)
    (hc : CacheInv msOf env s0 c now) :
    let r := mutesI false env now ls s0 s1 s2 c c'
    (∀ id, id ∈ r.silencedBy → activeMatching env s1 now ls id = true ∨ activeMatching env s2 now ls id = true) ∧
    (∀ id, activeMatching env s0 now ls id = true → activeMatching env s1 now ls id = true →
        activeMatching env s2 now ls id = true → id ∈ r.silencedBy) ∧
    r.muted = !r.silencedBy.isEmpty := by
  intro r
  obtain ⟨hby, hmu, _⟩ := mutesI_shape env now ls s0 s1 s2 c c'
  have hc1 : CacheInv msOf env s1 c now := cacheInv_step msOf env s0 s1 c now hc h01
  have hc2 : CacheInv msOf env s2 c now := cacheInv_step msOf env s1 s2 c now hc1 h12
  refine ⟨?_, ?_, hmu⟩
  · intro id hid
    rw [show r.silencedBy = _ from hby, mem_activeIdsOf] at hid
    obtain ⟨x, hx, hact, rfl⟩ := hid
    obtain ⟨_, hmatch, hst⟩ := candI_sound msOf env now ls s0 s1 s2 c hi1 hi2 hm2 hc _ x (mem_dedup_sub _ _ x hx)
    rcases hst with ⟨m, hl, rfl⟩ | ⟨m, hl, rfl⟩
    · left; exact (activeMatching_iff msOf env s1 now ls hm1 _).mpr ⟨m, hl, hact, hmatch⟩
    · right; exact (activeMatching_iff msOf env s2 now ls hm2 _).mpr ⟨m, hl, hact, hmatch⟩
  · intro id h0 h1 h2
    obtain ⟨m0, hl0, hact0, hmatch⟩ := (activeMatching_iff msOf env s0 now ls hm0 id).mp h0
    obtain ⟨m1, hl1, hact1, _⟩ := (activeMatching_iff msOf env s1 now ls hm1 id).mp h1
    obtain ⟨m2, hl2, hact2, _⟩ := (activeMatching_iff msOf env s2 now ls hm2 id).mp h2
    have hv0 : live m0.sil now := by unfold live; rw [hact0]; simp
    have hv1 : live m1.sil now := by unfold live; rw [hact1]; simp
    have hv2 : live m2.sil now := by unfold live; rw [hact2]; simp
    have hid1 : m1.sil.id = id := hi1.keyId id m1 hl1
    have hid2 : m2.sil.id = id := hi2.keyId id m2 hl2
    -- some candidate carries this id
    have hcand : ∃ x, x ∈ candI env s1 s2 now (cacheGet c ls) ls (decide ((cacheGet c ls).version = s0.version)) ∧ x.id = id := by
      have hold : id ∈ (cacheGet c ls).ids → ∃ x, x ∈ candI env s1 s2 now (cacheGet c ls) ls
          (decide ((cacheGet c ls).version = s0.version)) ∧ x.id = id := by
        intro hin
        refine ⟨m1.sil, ?_, hid1⟩
        unfold candI
        apply List.mem_append_left
        rw [mem_oldSils env s1 now _ hi1]
        exact ⟨⟨m1, by rw [hid1]; exact hl1, rfl⟩, by rw [hid1]; exact hin, hv1⟩
      rcases hc2.complete ls id m2 hl2 hmatch hv2 with hin | ⟨v, hmv, hlt⟩
      · exact hold hin
      · by_cases hu : (cacheGet c ls).version = s0.version
        · -- up to date at the version read: an id active then is a cached id
          rcases hc.complete ls id m0 hl0 hmatch hv0 with hin | ⟨v0, hmv0, hlt0⟩
          · exact hold hin
          · have := (hi0.viBound v0 id hmv0).2
            omega
        · refine ⟨m2.sil, ?_, hid2⟩
          unfold candI
          apply List.mem_append_right
          rw [mem_newI env s2 now _ ls _ hi2]
          refine ⟨by simp [hu], ⟨m2, by rw [hid2]; exact hl2, rfl⟩, ⟨v, hlt, by rw [hid2]; exact hmv⟩, hv2, ?_⟩
          have hsome := hi2.miHas id (by simp [hl2])
          cases hmi : lookup s2.mi id with
          | none => simp [hmi] at hsome
          | some ms =>
            have := hm2.mi id ms hmi
            subst this
            exact ⟨msOf id, by rw [hid2]; exact hmi, hmatch⟩
    obtain ⟨x, hx, hxid⟩ := hcand
    obtain ⟨y, hy, hyid⟩ := dedup_covers _ [] x hx (by simp)
    rw [show r.silencedBy = _ from hby, mem_activeIdsOf]
    refine ⟨y, hy, ?_, by rw [hyid, hxid]⟩
    obtain ⟨_, _, hst⟩ := candI_sound msOf env now ls s0 s1 s2 c hi1 hi2 hm2 hc _ y (mem_dedup_sub _ _ y hy)
    rcases hst with hst | hst
    · have : y = m1.sil := stored_unique s1 y m1.sil hst ⟨m1, by rw [hid1]; exact hl1, rfl⟩ (by rw [hyid, hxid, hid1])
      rw [this]; exact hact1
    · have : y = m2.sil := stored_unique s2 y m2.sil hst ⟨m2, by rw [hid2]; exact hl2, rfl⟩ (by rw [hyid, hxid, hid2])
      rw [this]; exact hact2

/-- the interleaved operations never end an active matching silence at the call's instant -/
def KeepsActive (env : Env) (now : Int) (ls : LabelSet) (s s' : Store) : Prop :=
  ∀ id, activeMatching env s now ls id = true → activeMatching env s' now ls id = true

theorem keepsActive_refl (env : Env) (now : Int) (ls : LabelSet) (s : Store) : KeepsActive env now ls s s :=
  fun _ h => h

theorem keepsActive_trans {env : Env} {now : Int} {ls : LabelSet} {a b c : Store}
    (h₁ : KeepsActive env now ls a b) (h₂ : KeepsActive env now ls b c) : KeepsActive env now ls a c :=
  fun id h => h₂ id (h₁ id h)

/-- **Linearizability.**  When the operations interleaved into the call keep active silences
    active at the call's instant, the verdict of the call is the brute-force verdict on the
    store as it was when the call read the version (`s0`), or as it was at its last read (`s2`). -/
theorem mutesI_linearizable (c' : Cache)
    (hi0 : IndexInv s0) (hi1 : IndexInv s1) (hi2 : IndexInv s2)
    (hm0 : MiInv msOf s0) (hm1 : MiInv msOf s1) (hm2 : MiInv msOf s2)
    (h01 : Step now s0 s1) (h12 : Step now s1 s2)
    (k01 : KeepsActive env now ls s0 s1) (k12 : KeepsActive env now ls s1 s2)
    (hc : CacheInv msOf env s0 c now) :
    let r := mutesI false env now ls s0 s1 s2 c c'
    (r.muted = true ↔ ∃ id, activeMatching env s0 now ls id = true) ∨
    (r.muted = true ↔ ∃ id, activeMatching env s2 now ls id = true) := by
  intro r
  obtain ⟨hs, hcm, hmu⟩ := mutes_interleaved_bracket msOf env now ls s0 s1 s2 c c' hi0 hi1 hi2 hm0 hm1 hm2 h01 h12 hc
  have hmu' : r.muted = !r.silencedBy.isEmpty := hmu
  by_cases h0 : ∃ id, activeMatching env s0 now ls id = true
  · left
    obtain ⟨id, hid⟩ := h0
    have hin : id ∈ r.silencedBy := hcm id hid (k01 id hid) (k12 id (k01 id hid))
    have : r.muted = true := by
      rw [hmu']
      cases hl : r.silencedBy with
      | nil => rw [hl] at hin; simp at hin
      | cons a l => simp
    exact ⟨fun _ => ⟨id, hid⟩, fun _ => this⟩
  · by_cases hm : r.muted = true
    · right
      have : ∃ id, id ∈ r.silencedBy := by
        rw [hmu'] at hm
        cases hl : r.silencedBy with
        | nil => simp [hl] at hm
        | cons a l => exact ⟨a, by simp⟩
      obtain ⟨id, hin⟩ := this
      have h2 : activeMatching env s2 now ls id = true := by
        rcases hs id hin with h | h
        · exact k12 id h
        · exact h
      exact ⟨fun _ => ⟨id, h2⟩, fun _ => hm⟩
    · left
      exact ⟨fun h => absurd h hm, fun h => absurd h h0⟩

end interleaved

/-! ### which operations keep active silences active at the call's instant -/

theorem activeMatching_congr (env : Env) (now : Int) (ls : LabelSet) (s s' : Store) (id : String)
    (h : lookup s'.st id = lookup s.st id) : activeMatching env s' now ls id = activeMatching env s now ls id := by
  unfold activeMatching; rw [h]

/-- writing a version `m` that is active at `now` and carries the stored matchers (whenever the
    stored version is active and matches) keeps every active matching silence active and matching -/
theorem keepsActive_setSilence (env : Env) (now : Int) (ls : LabelSet) (s : Store) (m : Mesh)
    (h : ∀ p, lookup s.st m.sil.id = some p → getState p.sil now = .active →
        getState m.sil now = .active ∧ m.sil.sets = p.sil.sets) :
    KeepsActive env now ls s (setSilence now s m).1 := by
  intro id hid
  by_cases hk : m.sil.id = id
  · subst hk
    unfold activeMatching at hid ⊢
    rw [setSilence_lookup]
    simp only [if_true]
    cases hl : lookup s.st m.sil.id with
    | none => simp [hl] at hid
    | some p =>
      simp only [hl, Bool.and_eq_true, decide_eq_true_eq] at hid
      obtain ⟨h1, h2⟩ := h p hl hid.1
      unfold upd
      by_cases hx : m.exp < now
      · simp [hx, hid.1, hid.2]
      · by_cases hp : p.sil.updated < m.sil.updated
        · simp [hx, hp, h1, h2, hid.2]
        · simp [hx, hp, hid.1, hid.2]
  · rw [activeMatching_congr env now ls s _ id (by rw [setSilence_lookup]; simp [hk])]
    exact hid

theorem keepsActive_expireCore (env : Env) (ret now : Int) (ls : LabelSet) (s : Store) (p : Mesh)
    (hl : lookup s.st p.sil.id = some p) : KeepsActive env now ls s (expireCore ret now s p.sil).1 := by
  unfold expireCore
  cases hx : expiredVersion now p.sil with
  | none => exact keepsActive_refl env now ls s
  | some x =>
    simp only
    apply keepsActive_setSilence
    intro q hq hact
    have hid : (toMesh ret x).sil.id = p.sil.id := expiredVersion_id now p.sil x hx
    rw [hid, hl] at hq
    injection hq with hq
    subst hq
    unfold expiredVersion at hx
    simp only [hact] at hx
    injection hx with hx
    subst hx
    refine ⟨?_, rfl⟩
    unfold getState at hact ⊢
    simp only [toMesh]
    by_cases h1 : now < p.sil.start
    · simp [h1] at hact
    · simp [h1]

/-- **`Expire` at instant `now` does not end a silence at `now`** (it ends it for every later
    instant): a racing `Mutes` that evaluates at the same instant may still report it. -/
theorem expire_keepsActive (env : Env) (ret now : Int) (ls : LabelSet) (s : Store) (id : String)
    (r : Store × List Mesh) (hi : IndexInv s) (h : expire ret now s id = .ok r) :
    KeepsActive env now ls s r.1 := by
  unfold expire at h
  cases hl : lookup s.st id with
  | none => simp [hl] at h
  | some p =>
    simp [hl] at h
    subst h
    have hpid : p.sil.id = id := hi.keyId id p hl
    exact keepsActive_expireCore env ret now ls s p (by rw [hpid]; exact hl)

/-- **`Set` at instant `now` keeps every active matching silence active and matching at `now`** —
    a create touches no other id, a replacing edit expires the old silence *at* `now`, an
    in-place edit keeps matchers, start (to the second) and an end not before `now` — provided an
    in-place edit of an active silence does not move its start past `now` (`canUpdate` compares
    starts to the second only, so the code allows that within the current second). -/
theorem set_keepsActive (env : Env) (ret : Int) (maxSil : Nat) (now : Int) (ls : LabelSet) (s : Store)
    (inp : SilIn) (newId : String) (big : Bool) (r : SetOk) (hi : IndexInv s)
    (hfresh : lookup s.st newId = none)
    (hstart : ∀ p, lookup s.st inp.id = some p → getState p.sil now = .active →
        canUpdate p.sil (silOfIn inp now) now = true → inp.start.getD now ≤ now)
    (h : set env ret maxSil now s inp newId big = .ok r) :
    KeepsActive env now ls s r.store := by
  unfold set at h
  by_cases hv : (!validate env inp.sets (inp.start.getD now) inp.stop) = true
  · simp [hv] at h
  · by_cases hn : inp.id ≠ "" ∧ lookup s.st inp.id = none
    · simp [hv, hn] at h
    · simp only [hv, hn, if_false] at h
      by_cases hu : canUpdatePrev (lookup s.st inp.id) (silOfIn inp now) now = true
      · simp only [hu, if_true] at h
        unfold setUpdate at h
        by_cases hb : big = true
        · simp [hb] at h
        · simp only [hb] at h
          injection h with h; subst h
          simp only
          apply keepsActive_setSilence
          intro q hq hact
          have : (toMesh ret (silOfIn inp now)).sil.id = inp.id := rfl
          rw [this] at hq
          unfold canUpdatePrev at hu
          simp only [hq] at hu
          have hst := hstart q hq hact hu
          unfold canUpdate at hu
          simp only [hact, Bool.and_eq_true, decide_eq_true_eq, Bool.not_eq_true', decide_eq_false_iff_not] at hu
          obtain ⟨hsets, _, hstop⟩ := hu
          refine ⟨?_, hsets.symm⟩
          unfold getState
          simp only [toMesh, silOfIn] at hstop ⊢
          have h1 : ¬ now < inp.start.getD now := by omega
          have h2 : ¬ now > inp.stop.getD 0 := by omega
          simp [h1, h2]
      · simp only [hu] at h
        unfold setCreate at h
        by_cases hlim : maxSil > 0 ∧ s.st.length + 1 > maxSil
        · simp [hlim] at h
        · by_cases hb : big = true
          · simp [hlim, hb] at h
          · simp only [hlim, hb, if_false] at h
            injection h with h; subst h
            simp only
            have h1 : KeepsActive env now ls s (expirePrev ret now s (lookup s.st inp.id)).1 ∧
                lookup (expirePrev ret now s (lookup s.st inp.id)).1.st newId = none := by
              cases hl : lookup s.st inp.id with
              | none => exact ⟨keepsActive_refl env now ls s, hfresh⟩
              | some p =>
                have hpid : p.sil.id = inp.id := hi.keyId inp.id p hl
                refine ⟨keepsActive_expireCore env ret now ls s p (by rw [hpid]; exact hl), ?_⟩
                simp only [expirePrev]
                rw [expireCore_lookup_ne ret now s p.sil newId]
                · exact hfresh
                · rw [hpid]; intro he; rw [he, hfresh] at hl; cases hl
            refine keepsActive_trans h1.1 ?_
            apply keepsActive_setSilence
            intro q hq _
            have : (toMesh ret (raised (silOfIn inp now) newId now)).sil.id = newId := rfl
            rw [this, h1.2] at hq
            cases hq

/-- **After any interleaved call the next call is exactly right**: the call after an
    interleaved one (the store having moved on by any further `Step`) reports the brute-force
    verdict and id list of the store it runs on. -/
theorem mutesI_next_call_exact (msOf : String → MatcherSets) (env : Env) (now : Int) (ls : LabelSet)
    (s0 s1 s2 s3 s4 : Store) (c c' : Cache)
    (hi1 : IndexInv s1) (hi2 : IndexInv s2) (hi4 : IndexInv s4) (hm2 : MiInv msOf s2) (hm4 : MiInv msOf s4)
    (h01 : Step now s0 s1) (h12 : Step now s1 s2) (h23 : Step now s2 s3) (h34 : Step now s3 s4)
    (hc : CacheInv msOf env s0 c now) (hc' : CacheInv msOf env s3 c' now) (now' : Int) (hle : now ≤ now') (ls' : LabelSet) :
    let c'' := (mutesI false env now ls s0 s1 s2 c c').cache
    let r := mutes env s4 c'' now' ls'
    (r.muted = true ↔ ∃ id, activeMatching env s4 now' ls' id = true) ∧
    (∀ id, id ∈ r.silencedBy ↔ activeMatching env s4 now' ls' id = true) := by
  intro c'' r
  have h3 := mutesI_cacheInv msOf env now ls s0 s1 s2 c s3 c' hi1 hi2 hm2 h01 h12 h23 hc hc'
  have h4 := cacheInv_time msOf env s4 c'' now now' hle (cacheInv_step msOf env s3 s4 c'' now h3 h34)
  obtain ⟨g1, g2, _⟩ := mutes_correct msOf env s4 c'' now' ls' hi4 hm4 h4
  exact ⟨g2, g1⟩

/-- The hypotheses above are met by real operations.  The scenario of the seeded change under
    the code's own discipline: from any reachable instance (`Inv`), a `Set` — any input, a fresh
    uuid — completes between the version read and the re-query of one `Mutes` call.  The cache
    the call leaves is valid for the store *with* the new silence (so the next call matches it),
    and the call's verdict is the brute-force verdict of the store before or after the `Set`. -/
theorem mutesI_during_set (msOf : String → MatcherSets) (env : Env) (ret : Int) (maxSil : Nat) (σ : Sys) (now : Int)
    (h : Inv msOf env σ now) (inp : SilIn) (newId : String) (big : Bool) (r : SetOk)
    (hok : inp.sets = msOf newId) (hfresh : lookup σ.store.st newId = none)
    (hstart : ∀ p, lookup σ.store.st inp.id = some p → getState p.sil now = .active →
        canUpdate p.sil (silOfIn inp now) now = true → inp.start.getD now ≤ now)
    (hset : set env ret maxSil now σ.store inp newId big = .ok r) (ls : LabelSet) :
    let out := mutesI false env now ls σ.store r.store r.store σ.cache σ.cache
    CacheInv msOf env r.store out.cache now ∧
    ((out.muted = true ↔ ∃ id, activeMatching env σ.store now ls id = true) ∨
     (out.muted = true ↔ ∃ id, activeMatching env r.store now ls id = true)) := by
  intro out
  obtain ⟨h01, hm1⟩ := set_step msOf env ret maxSil now σ.store inp newId big r h.idx h.mi hok hfresh hset
  have hi1 := indexInv_set env ret maxSil now σ.store inp newId big r h.idx hset
  have hc' := cacheInv_step msOf env σ.store r.store σ.cache now h.cache h01
  exact ⟨mutesI_cacheInv msOf env now ls σ.store r.store r.store σ.cache r.store σ.cache hi1 hi1 hm1 h01
      (step_refl now _) (step_refl now _) h.cache hc',
    mutesI_linearizable msOf env now ls σ.store r.store r.store σ.cache σ.cache h.idx hi1 hi1 h.mi hm1 hm1 h01
      (step_refl now _) (set_keepsActive env ret maxSil now ls σ.store inp newId big r h.idx hfresh hstart hset)
      (keepsActive_refl env now ls _) h.cache⟩

/-! ### the seeded discipline, and why `KeepsActive` is needed -/

private def envI : Env := { re := fun _ _ => false, reOk := fun _ => true, nameOk := fun n => n ≠ "" }
private def lsI : LabelSet := [("a", "1")]
private def inX : SilIn := { id := "", sets := [[⟨.eq, "a", "1"⟩]], start := some 0, stop := some 10, comment := "" }
private def inY : SilIn := { id := "", sets := [[⟨.eq, "a", "1"⟩]], start := some 2, stop := some 10, comment := "" }

/-- create X; `Mutes` (caches X at version 1) -/
private def σ0 : Sys := [Op.set 0 inX "x" false, .mutes 1 lsI].foldl (Sys.step true envI 0 0) {}
/-- … a second matching silence Y is created while a `Mutes` call is between its version read
    and its re-query of the cached ids -/
private def sY : Store := (Sys.step true envI 0 0 σ0 (.set 2 inY "y" false)).store
/-- the cache that call leaves behind under discipline `late`, then X is expired -/
private def afterI (late : Bool) : Sys :=
  Sys.step true envI 0 0
    { store := sY, cache := (mutesI late envI 2 lsI σ0.store sY sY σ0.cache σ0.cache).cache } (.expire 3 "x")

/-- **The seeded discipline loses the update.**  With the cache version taken from the
    re-query of the cached ids (`late = true`) the entry claims version 2 without Y ever having
    been matched against the alert: once X has been expired, `Mutes` answers "not muted" while
    the stored silence Y is active and matches.  Under the code's discipline (`late = false`)
    the same history answers "muted by Y". -/
theorem interleaved_update_lost_counterexample :
    cacheGet (afterI true).cache lsI = { version := 2, ids := ["x"] } ∧
    activeMatching envI (afterI true).store 4 lsI "y" = true ∧
    (mutes envI (afterI true).store (afterI true).cache 4 lsI).muted = false ∧
    cacheGet (afterI false).cache lsI = { version := 1, ids := ["x"] } ∧
    (mutes envI (afterI false).store (afterI false).cache 4 lsI).silencedBy = ["y"] := by
  decide

private def inP : SilIn := { id := "", sets := [[⟨.eq, "a", "1"⟩]], start := some 10, stop := some 20, comment := "" }
private def inZ : SilIn := { id := "", sets := [[⟨.eq, "a", "1"⟩]], start := some 2, stop := some 20, comment := "" }
/-- pending P cached at version 1, then active Z indexed at version 2 -/
private def σm : Sys :=
  [Op.set 0 inP "p" false, .mutes 1 lsI, .set 2 inZ "z" false].foldl (Sys.step true envI 0 0) {}
/-- one gossip message re-dates both: P starts now, Z starts later -/
private def sM : Store :=
  (mergeBatch true 3 false σm.store
    [{ sil := { id := "p", sets := [[⟨.eq, "a", "1"⟩]], start := 3, stop := 20, updated := 3, comment := "" }, exp := 20 },
     { sil := { id := "z", sets := [[⟨.eq, "a", "1"⟩]], start := 10, stop := 20, updated := 3, comment := "" }, exp := 20 }]).1

/-- Why `mutesI_linearizable` asks for `KeepsActive`: a merged message may re-date silences to any
    instant.  Here the alert is muted by Z before the message and by P after it, the call
    re-queries P before and scans Z after — and answers "not muted", the verdict of no single
    store state (the bracket of `mutes_interleaved_bracket` still holds: no silence is active at
    all three reads). -/
theorem merge_interleaving_not_linearizable :
    activeMatching envI σm.store 3 lsI "z" = true ∧ activeMatching envI sM 3 lsI "p" = true ∧
    (mutesI false envI 3 lsI σm.store σm.store sM σm.cache σm.cache).muted = false := by
  decide

end AM.Silence
