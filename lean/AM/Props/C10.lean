/-
  C10 — Replicated notification log converges and never goes backwards.
  Property theorems only; all are unbounded (any state, any history).
-/
import AM.Model.Nflog

namespace AM.Nflog
open AM AM.AList

/-! ### pointwise characterisation of `merge` -/

theorem lookup_merge (now : Int) (s : State) (e : Entry) (k : String) :
    lookup (merge now s e) k =
      if accepts now s e ∧ e.key = k then some e else lookup s k := by
  unfold merge
  by_cases h : accepts now s e
  · simp [h, lookup_put]
  · simp [h]

/-- An older (or equally old) entry never overwrites a newer one; a stored key stays stored. -/
theorem merge_monotone (now : Int) (s : State) (e : Entry) (k : String) (p : Entry)
    (h : lookup s k = some p) :
    ∃ q, lookup (merge now s e) k = some q ∧ p.ts ≤ q.ts := by
  rw [lookup_merge]
  by_cases hc : accepts now s e ∧ e.key = k
  · obtain ⟨ha, hk⟩ := hc
    refine ⟨e, by simp [ha, hk], ?_⟩
    unfold accepts at ha
    rw [hk, h] at ha
    by_cases hx : e.exp < now
    · simp [hx] at ha
    · simp [hx] at ha; omega
  · exact ⟨p, by simp [hc, h], Int.le_refl _⟩

/-- An expired entry is never accepted. -/
theorem merge_refuses_expired (now : Int) (s : State) (e : Entry) (h : e.exp < now) :
    merge now s e = s := by
  unfold merge accepts; simp [h]

/-- Re-merging something already merged changes nothing and is not gossiped again. -/
theorem merge_idem (now now' : Int) (s : State) (e : Entry) (h : accepts now s e = true) :
    accepts now' (merge now s e) e = false := by
  unfold accepts
  by_cases hx : e.exp < now'
  · simp [hx]
  · have : lookup (merge now s e) e.key = some e := by rw [lookup_merge]; simp [h]
    simp [hx, this]

/-- The entry stored for a key after a merge is the stored or the offered one. -/
theorem merge_result (now : Int) (s : State) (e : Entry) (k : String) :
    lookup (merge now s e) k = lookup s k ∨ (lookup (merge now s e) k = some e ∧ e.key = k ∧ now ≤ e.exp) := by
  rw [lookup_merge]
  by_cases hc : accepts now s e ∧ e.key = k
  · right; obtain ⟨ha, hk⟩ := hc
    refine ⟨by simp [ha, hk], hk, ?_⟩
    unfold accepts at ha
    by_cases hx : e.exp < now
    · simp [hx] at ha
    · omega
  · left; simp [hc]

/-- What `merge` does to the slot of one key. -/
def upd (now : Int) (o : Option Entry) (e : Entry) : Option Entry :=
  if e.exp < now then o
  else match o with
    | none => some e
    | some p => if p.ts < e.ts then some e else some p

theorem lookup_merge_upd (now : Int) (s : State) (e : Entry) (k : String) :
    lookup (merge now s e) k = if e.key = k then upd now (lookup s k) e else lookup s k := by
  rw [lookup_merge]
  by_cases hk : e.key = k
  · subst hk
    unfold accepts upd
    by_cases hx : e.exp < now
    · simp [hx]
    · cases hs : lookup s e.key with
      | none => simp [hx]
      | some p => by_cases hp : p.ts < e.ts <;> simp [hx, hp]
  · simp [hk]

theorem upd_comm (now : Int) (o : Option Entry) (a b : Entry) (hne : a.ts ≠ b.ts) :
    upd now (upd now o a) b = upd now (upd now o b) a := by
  unfold upd
  by_cases ha : a.exp < now <;> by_cases hb : b.exp < now <;> simp [ha, hb]
  cases o with
  | none =>
    simp
    by_cases h1 : a.ts < b.ts
    · have h2 : ¬ b.ts < a.ts := by omega
      simp [h1, h2]
    · have h2 : b.ts < a.ts := by omega
      simp [h1, h2]
  | some p =>
    simp
    by_cases h1 : p.ts < a.ts <;> by_cases h2 : p.ts < b.ts <;> simp [h1, h2]
    · by_cases h3 : a.ts < b.ts
      · have h4 : ¬ b.ts < a.ts := by omega
        simp [h3, h4]
      · have h4 : b.ts < a.ts := by omega
        simp [h3, h4]
    · have : ¬ a.ts < b.ts := by omega
      simp [this]
    · have : ¬ b.ts < a.ts := by omega
      simp [this]

/-- Two merges at the same instant commute pointwise unless they tie on (key, timestamp). -/
theorem merge_comm (now : Int) (s : State) (a b : Entry) (k : String)
    (hne : a.key = b.key → a.ts ≠ b.ts) :
    lookup (merge now (merge now s a) b) k = lookup (merge now (merge now s b) a) k := by
  simp only [lookup_merge_upd]
  by_cases hak : a.key = k <;> by_cases hbk : b.key = k <;> simp [hak, hbk]
  exact upd_comm now _ a b (hne (hak.trans hbk.symm))

/-- `merge` respects pointwise equality of states. -/
theorem merge_congr (now : Int) (s s' : State) (e : Entry) (h : Equiv s s') :
    Equiv (merge now s e) (merge now s' e) := by
  intro k; simp only [lookup_merge_upd, h k]

theorem foldl_merge_congr (now : Int) (l : List Entry) (s s' : State) (h : Equiv s s') :
    Equiv (l.foldl (merge now) s) (l.foldl (merge now) s') := by
  induction l generalizing s s' with
  | nil => exact h
  | cons e l ih => exact ih _ _ (merge_congr now s s' e h)

/-- No two offered versions of one key tie on the timestamp. -/
def NoTie (l : List Entry) : Prop :=
  l.Pairwise (fun a b => a.key = b.key → a.ts ≠ b.ts)

/-- Delivery order does not matter: any permutation of the same updates yields the same log. -/
theorem fold_merge_perm (now : Int) (l₁ l₂ : List Entry) (s : State)
    (hp : l₁.Perm l₂) (hn : NoTie l₁) :
    Equiv (l₁.foldl (merge now) s) (l₂.foldl (merge now) s) := by
  induction hp generalizing s with
  | nil => exact Equiv.refl _
  | cons x _ ih =>
    simp only [List.foldl_cons]
    exact ih _ (List.Pairwise.of_cons hn)
  | swap x y l =>
    simp only [List.foldl_cons]
    apply foldl_merge_congr
    intro k
    have hxy : y.key = x.key → y.ts ≠ x.ts := by
      have := (List.pairwise_cons.mp hn).1 x (by simp)
      exact this
    exact merge_comm now s y x k hxy
  | trans h₁ _ ih₁ ih₂ =>
    refine Equiv.trans (ih₁ _ hn) (ih₂ _ ?_)
    exact h₁.pairwise hn (fun h hk hts => h hk.symm hts.symm)

/-- Duplicated delivery is inert: offering an already merged entry again changes nothing. -/
theorem merge_dup (now now' : Int) (s : State) (e : Entry) :
    Equiv (merge now' (merge now s e) e) (merge now s e) ∨ accepts now s e = false := by
  by_cases h : accepts now s e = true
  · left; intro k
    have := merge_idem now now' s e h
    rw [merge.eq_1 now' (merge now s e) e]
    simp [this]
  · right; simpa using h

/-! ### GC, Query, Log -/

theorem gc_spec (now : Int) (s : State) (hnd : NoDupKeys s) (k : String) :
    lookup (gc now s).1 k =
      match lookup s k with
      | some e => if e.exp > now then some e else none
      | none => none := by
  unfold gc
  simp only
  rw [lookup_filterVals _ _ hnd]
  cases lookup s k <;> simp

/-- Entries are kept until their expiry … -/
theorem gc_keeps_unexpired (now : Int) (s : State) (hnd : NoDupKeys s) (k : String) (e : Entry)
    (h : lookup s k = some e) (hx : now < e.exp) : lookup (gc now s).1 k = some e := by
  rw [gc_spec now s hnd, h]; simp [hx]

/-- … and dropped by garbage collection afterwards. -/
theorem gc_drops_expired (now : Int) (s : State) (hnd : NoDupKeys s) (k : String) (e : Entry)
    (h : lookup s k = some e) (hx : e.exp ≤ now) : lookup (gc now s).1 k = none := by
  rw [gc_spec now s hnd, h]
  have : ¬ e.exp > now := by omega
  simp [this]

theorem query_spec (s : State) (k : String) : query s k = lookup s k := rfl

/-- `Log.Log`: both refusal cases and the expiry rule. -/
theorem log_spec (now retention : Int) (s : State) (key : String) (f r : List Nat) (d : String)
    (expiry : Int) (hret : 0 ≤ retention) (_hexp : 0 ≤ expiry) :
    let res := log now retention s key f r d expiry
    let e : Entry := { key, ts := now, exp := logExpiry now retention expiry, firing := f, resolved := r, data := d }
    (∀ k, k ≠ key → lookup res.1 k = lookup s k) ∧
    (match lookup s key with
     | none => lookup res.1 key = some e ∧ res.2 = .broadcast e
     | some p =>
        if p.ts > now then res = (s, .skipped)
        else if p.ts = now then lookup res.1 key = some p ∧ res.2 = .broadcast e
        else lookup res.1 key = some e ∧ res.2 = .broadcast e) ∧
    now ≤ e.exp ∧ e.exp ≤ now + retention := by
  have hexp' : now ≤ logExpiry now retention expiry ∧ logExpiry now retention expiry ≤ now + retention := by
    unfold logExpiry; split <;> omega
  refine ⟨?_, ?_, hexp'.1, hexp'.2⟩
  · intro k hk
    unfold log
    cases hs : lookup s key with
    | none => simp [lookup_merge_upd, Ne.symm hk]
    | some p =>
      by_cases hp : p.ts > now
      · simp [hp]
      · simp [hp, lookup_merge_upd, Ne.symm hk]
  · have hx : ¬ logExpiry now retention expiry < now := by omega
    cases hs : lookup s key with
    | none =>
      simp [log, hs, lookup_merge_upd, upd, hx]
    | some p =>
      by_cases hp : p.ts > now
      · simp [log, hs, hp]
      · by_cases hq : p.ts = now
        · have : ¬ p.ts < now := by omega
          simp [log, hs, hp, hq, lookup_merge_upd, upd, hx]
        · have : p.ts < now := by omega
          simp [log, hs, hp, hq, lookup_merge_upd, upd, hx, this]

/-- Receiver data stored with an entry is returned unchanged (it is a field of
    the stored value and no operation rewrites stored values). -/
theorem data_preserved (now : Int) (s : State) (e : Entry) (h : accepts now s e = true) :
    (query (merge now s e) e.key).map (·.data) = some e.data := by
  unfold query; rw [lookup_merge]; simp [h]

/-! ### batches -/

theorem lookup_decodeBatch_aux (b : List Entry) (st : State) (k : String) :
    lookup (b.foldl (fun st e => put st e.key e) st) k =
      match (b.reverse.find? (fun e => e.key = k)) with
      | some e => some e
      | none => lookup st k := by
  induction b generalizing st with
  | nil => simp
  | cons e b ih =>
    simp only [List.foldl_cons, ih, List.reverse_cons, List.find?_append]
    cases h : List.find? (fun e => decide (e.key = k)) b.reverse with
    | some x => simp
    | none =>
      simp [lookup_put]
      by_cases hk : e.key = k <;> simp [hk]

/-- Batching caveat stated outright: within one encoded message a later record
    for a key replaces an earlier one, whatever their timestamps. -/
theorem decodeBatch_last_wins (b : List Entry) (k : String) :
    lookup (decodeBatch b) k = b.reverse.find? (fun e => e.key = k) := by
  unfold decodeBatch
  rw [lookup_decodeBatch_aux]
  cases List.find? (fun e => decide (e.key = k)) b.reverse <;> simp

/-! ### histories: the newest unexpired offer wins -/

theorem foldl_merge_ge (now : Int) (l : List Entry) (s : State) (k : String) (p : Entry)
    (h : lookup s k = some p) : ∃ q, lookup (l.foldl (merge now) s) k = some q ∧ p.ts ≤ q.ts := by
  induction l generalizing s p with
  | nil => exact ⟨p, h, Int.le_refl _⟩
  | cons e l ih =>
    obtain ⟨q, hq, hpq⟩ := merge_monotone now s e k p h
    obtain ⟨r, hr, hqr⟩ := ih (merge now s e) q hq
    exact ⟨r, hr, by omega⟩

/-- After any sequence of merges, the entry held for a key is at least as new as
    every offered version of that key that was unexpired when offered. -/
theorem fold_merge_newest (now : Int) (l : List Entry) (s : State) (x : Entry)
    (hx : x ∈ l) (hlive : now ≤ x.exp) :
    ∃ q, lookup (l.foldl (merge now) s) x.key = some q ∧ x.ts ≤ q.ts := by
  induction l generalizing s with
  | nil => simp at hx
  | cons e l ih =>
    simp only [List.mem_cons] at hx
    rcases hx with hx | hx
    · subst hx
      -- after merging x itself the slot holds x or something at least as new
      have hslot : ∃ q, lookup (merge now s x) x.key = some q ∧ x.ts ≤ q.ts := by
        rw [lookup_merge_upd]; simp only [if_true]
        unfold upd
        have : ¬ x.exp < now := by omega
        simp only [this, if_false]
        cases lookup s x.key with
        | none => exact ⟨x, rfl, Int.le_refl _⟩
        | some p =>
          simp only
          by_cases hp : p.ts < x.ts
          · simp only [hp, if_true]; exact ⟨x, rfl, Int.le_refl _⟩
          · simp only [hp, if_false]; exact ⟨p, rfl, by omega⟩
      obtain ⟨q, hq, hxq⟩ := hslot
      obtain ⟨r, hr, hqr⟩ := foldl_merge_ge now l (merge now s x) x.key q hq
      exact ⟨r, hr, by omega⟩
    · exact ih (merge now s e) hx

/-- … and it is one of the versions the instance held or was offered: merging
    invents nothing. -/
theorem fold_merge_from_offers (now : Int) (l : List Entry) (s : State) (k : String) (q : Entry)
    (h : lookup (l.foldl (merge now) s) k = some q) : lookup s k = some q ∨ q ∈ l := by
  induction l generalizing s with
  | nil => left; exact h
  | cons e l ih =>
    rcases ih (merge now s e) h with h1 | h1
    · rcases merge_result now s e k with h2 | h2
      · left; rw [← h2]; exact h1
      · right; rw [h2.1] at h1
        have : q = e := by simpa using h1.symm
        subst this; simp
    · right; exact List.mem_cons_of_mem _ h1

/-- `Log.Merge` applies `merge` to the decoded batch, entry by entry. -/
theorem mergeBatch_fst (now : Int) (ov : Bool) (s : State) (b : List Entry) :
    (mergeBatch now ov s b).1 = ((decodeBatch b).map Prod.snd).foldl (merge now) s := by
  unfold mergeBatch
  generalize decodeBatch b = d
  have : ∀ (acc : State × Nat),
      (d.foldl (fun (acc : State × Nat) kv =>
        if accepts now acc.1 kv.2 then (put acc.1 kv.2.key kv.2, if ov then acc.2 else acc.2 + 1) else acc) acc).1
      = (d.map Prod.snd).foldl (merge now) acc.1 := by
    induction d with
    | nil => intro acc; rfl
    | cons kv rest ih =>
      intro acc
      simp only [List.foldl_cons, List.map_cons]
      rw [ih]
      congr 1
      unfold merge
      split <;> simp_all
  exact this (s, 0)

/-! ### non-vacuity -/

example : accepts 10 [] { key := "g:r", ts := 5, exp := 20, firing := [1], resolved := [], data := "" } = true := by
  decide

example : NoTie [{ key := "g:r", ts := 5, exp := 20, firing := [1], resolved := [], data := "" },
                 { key := "g:r", ts := 6, exp := 20, firing := [2], resolved := [], data := "" }] := by
  simp [NoTie]

end AM.Nflog
